import sys, os, numpy as np, io, contextlib
os.chdir('/repo'); sys.path.insert(0,'/repo')
from src.food_system import animal_populations as ap
from src.food_system.food import Food
import pandas as pd
Food.conversions.set_nutrition_requirements(2100,47,51,False,False,1e7)
kd={"KCALS_PER_CHICKEN":1.65*1525/1e9,"KCALS_PER_PIG":86*3590/1e9,"KCALS_PER_SMALL_ANIMAL":2.36*1525/1e9,"KCALS_PER_MEDIUM_ANIMAL":24.6*3590/1e9,"KCALS_PER_LARGE_ANIMAL":269.7*2750/1e9}
rng=np.random.default_rng(1)
def series(kind,N,scale):
    if kind=='zero': return np.zeros(N)
    if kind=='ample': return np.full(N,1e9)
    if kind=='partial': return np.full(N,scale*0.3)
    return rng.uniform(0,scale,N)
def F(k): 
    N=len(k); return Food(kcals=np.array(k,dtype=float),fat=np.zeros(N),protein=np.zeros(N),kcals_units="billion kcals each month",fat_units="thousand tons each month",protein_units="thousand tons each month")
tab=pd.read_csv('data/no_food_trade/computer_readable_combined.csv'); ccs=list(tab['iso3'])+['WOR']
issues=[]; n=0
for cc in ccs[::4]:
  for scen in ['baseline','reduced','feed_only_ruminants']:
    for fk,gk in [('zero','zero'),('partial','partial'),('rand','rand'),('ample','zero')]:
      N=48
      try:
        with contextlib.redirect_stdout(io.StringIO()):
          # scale by a first ample run need
          animals,fu,gu=ap.main(cc,F(series(fk,N,50)),F(series(gk,N,500)),scen,None,0,kd)
      except BaseException as e:
        issues.append((cc,scen,fk,gk,'EXC',repr(e)[:120])); continue
      n+=1
      hours_cap={s:sum(a.animal_slaughter_hours*a.baseline_slaughter for a in animals if a.animal_size==s) for s in ['small','medium','large']}
      T=len(animals[0].population)-1
      for m in range(T):
        used={s:0.0 for s in hours_cap}
        tin={}; 
        for a in animals:
          if a.animal_function=='milk':
            tin[a.animal_species]=a.retiring_milk_animals[m]+a.transfer_births[m]
        for a in animals:
          sl=a.slaughter[m+1]; used[a.animal_size]+=sl*a.animal_slaughter_hours
          start=a.population[m]; births=a.births_animals_month[m]; tr=a.transfer_population[m]
          ret=a.retiring_milk_animals[m] if a.animal_function=='milk' else 0
          od=a.other_death_causes_other_than_starving[m+1]
          pre=start-od-ret+births+(tr if a.animal_function!='milk' else 0)
          for nm,v in [('slaughter',sl),('births',births),('od',od),('starve',a.other_death_starving[m+1]),('pop',a.population[m+1]),('starving_pre',a.population_starving_pre_slaughter[m+1])]:
            if v < -1e-9*max(1,start): issues.append((cc,scen,fk,gk,m,a.animal_type,'NEG',nm,v))
          if sl > pre*(1+1e-12)+1e-9: issues.append((cc,scen,fk,gk,m,a.animal_type,'SL>AVAIL',sl,pre))
          if sl>0 and pre-sl < a.target_population_head*(1-1e-12)-1e-9: issues.append((cc,scen,fk,gk,m,a.animal_type,'BELOW_TARGET',pre-sl,a.target_population_head))
          if a.animal_function!='milk':
            exp=tin.get(a.animal_species,0)
            if abs(tr-exp)>1e-9*max(1,abs(exp)): issues.append((cc,scen,fk,gk,m,a.animal_type,'TRANSFER',tr,exp))
          if a.population_fed > start*(1+1e-12)+0.5 and False: pass
        for s in used:
          if used[s] > hours_cap[s]*(1+1e-9)+1e-9: issues.append((cc,scen,fk,gk,m,s,'HOURS',used[s],hours_cap[s]))
      # feed use within supply
      
print('runs',n,'issues',len(issues))
import collections
print(collections.Counter(i[6] if len(i)>6 else i[4] for i in issues))
for k in ['NEG','SL>AVAIL','BELOW_TARGET','TRANSFER','HOURS','EXC']:
    ex=[i for i in issues if (i[6] if len(i)>6 else i[4])==k][:4]
    print(k,ex)
