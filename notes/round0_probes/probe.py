import sys, time, yaml, json, numpy as np, io, contextlib
sys.path.insert(0,'/repo')
import os
os.chdir('/repo')
from src.scenarios.run_model_no_trade import ScenarioRunnerNoTrade
from src.scenarios.run_scenario import ScenarioRunner
from src.optimizer.optimizer import Optimizer
from src.optimizer.parameters import Parameters
cap={}
orig_h=Optimizer.optimize_to_humans; orig_a=Optimizer.optimize_feed_to_animals
def wh(self,c,t):
    r=orig_h(self,c,t); cap.setdefault('rounds',[]).append(('H',self,r)); return r
def wa(self,c,t,m):
    r=orig_a(self,c,t,m); cap.setdefault('rounds',[]).append(('A',self,r)); return r
Optimizer.optimize_to_humans=wh; Optimizer.optimize_feed_to_animals=wa
orig_first=Parameters.compute_parameters_first_round
def wf(self,*a,**k):
    r=orig_first(self,*a,**k); cap['first']=r; return r
Parameters.compute_parameters_first_round=wf
orig_run=ScenarioRunner.run_optimizer
def wr(self,*a,**k):
    r=orig_run(self,*a,**k); cap.setdefault('interp',[]).append(r); return r
ScenarioRunner.run_optimizer=wr

cfg=yaml.safe_load(open('scenarios/argentina.yaml'))
base=list(cfg['simulations'].values())
countries=sys.argv[1].split(',')
def val(v): 
    return v.varValue if hasattr(v,'varValue') else float(v)
for ci in countries:
  for si,s in enumerate(base):
    s=dict(s); s['NMONTHS']=120
    for sh in ['continued','long_delayed_shutoff','continued_after_10_percent_fed']:
        s['shutoff']=sh
        cap.clear()
        buf=io.StringIO()
        t=time.time()
        try:
            with contextlib.redirect_stdout(buf):
                out=ScenarioRunnerNoTrade().run_model_no_trade(title='vt_probe',create_pptx_with_all_countries=False,scenario_option=s,countries_list=[ci],return_results=True)
        except BaseException as e:
            print(ci,si,sh,'EXC',repr(e)[:200]); continue
        txt=buf.getvalue()
        banner='ASSERT FAILED' in txt, 'Humans starving in round 3' in txt
        rounds=cap.get('rounds',[])
        interp=cap.get('interp',[])
        pf=[round(i.percent_people_fed,3) for i in interp]
        objs=[round(r[2][3],3) for r in rounds]
        r3=interp[-1]
        fb=np.max(r3.feed_and_biofuels_sum.kcals)
        T=cap['first'][0]['inputs']['MINIMUM_PERCENT_FED_BEFORE_NONHUMAN_CONSUMPTION_ALLOWED']
        # ledger residual for stored food last round
        kind,opt,(model,vars_,mc,pfm)=rounds[-1]
        c=opt.consts_for_optimizer
        res=None
        if c['ADD_STORED_FOOD']:
            w=1/(1-c['STORED_FOOD_WASTE_RETAIL']/100)
            used=sum(val(vars_['stored_food_to_humans'][m])*w+val(vars_['stored_food_feed'][m])+val(vars_['stored_food_biofuel'][m]) for m in range(120))
            res=used-c['stored_food'].initial_available.kcals
        print(ci,si,sh,'T',T,'pf',pf,'obj',objs,'maxFB%',round(float(fb),3),'banner',banner,'sfres',res,'t',round(time.time()-t,1))
