import sys, os, numpy as np, time
os.chdir('/repo'); sys.path.insert(0,'/repo')
from src.food_system.food import Food
from src.optimizer.optimizer import Optimizer
class Obj: pass
def mk(N, sf, crops, meat, scp, cs, waste=0.0, pop=1e6/63.0*1e3, store=True, feed=None, bio=None):
    # choose POP so BILLION_KCALS_NEEDED = 1 per month: kcals_monthly*pop/1e9 = 1 -> pop = 1e9/(2100*30)
    pop = 1e9/(2100*30)
    Food.conversions.set_nutrition_requirements(2100,47,51,False,False,pop)
    z=np.zeros(N)
    F=lambda k: Food(kcals=np.array(k,dtype=float),fat=np.zeros(N),protein=np.zeros(N),kcals_units="billion kcals each month",fat_units="thousand tons each month",protein_units="thousand tons each month")
    oc=Obj(); oc.production=F(crops)
    sfo=Obj(); sfo.initial_available=Food(float(sf),0,0)
    fish=Obj(); fish.to_humans=F(z)
    c=dict(NMONTHS=N,POP=pop,KCALS_MONTHLY=2100*30,BILLION_KCALS_NEEDED=Food.conversions.billion_kcals_needed,
      ADD_SEAWEED=False,ADD_OUTDOOR_GROWING=True,ADD_STORED_FOOD=True,ADD_MEAT=True,ADD_METHANE_SCP=True,ADD_CELLULOSIC_SUGAR=True,
      STORE_FOOD_BETWEEN_YEARS=store,stored_food=sfo,STORED_FOOD_WASTE_RETAIL=waste,MEAT_WASTE_RETAIL=waste,CROP_WASTE_RETAIL=waste,SCP_RETAIL_WASTE=waste,CELL_SUGAR_RETAIL_WASTE=waste,
      SEAWEED_KCALS=1.0,meat_summed_consumption=float(sum(meat)),INITIAL_HARVEST_DURATION_IN_MONTHS=8,DELAY={'ROTATION_CHANGE_IN_MONTHS':2},
      OG_FRACTION_FAT=0,OG_FRACTION_PROTEIN=0,OG_ROTATION_FRACTION_FAT=0,OG_ROTATION_FRACTION_PROTEIN=0,
      inputs=dict(INCLUDE_FAT=False,INCLUDE_PROTEIN=False,OG_USE_BETTER_ROTATION=False,COUNTRY_CODE='XXX',
        MAX_METHANE_SCP_AS_PERCENT_KCALS_HUMANS=100,MAX_METHANE_SCP_AS_PERCENT_KCALS_FEED=100,MAX_METHANE_SCP_AS_PERCENT_KCALS_BIOFUEL=100,
        MAX_CELLULOSIC_SUGAR_AS_PERCENT_KCALS_HUMANS=100,MAX_CELLULOSIC_SUGAR_AS_PERCENT_KCALS_FEED=100,MAX_CELLULOSIC_SUGAR_AS_PERCENT_KCALS_BIOFUEL=100))
    t=dict(outdoor_crops=oc,fish=fish,greenhouse_crops=F(z),milk_kcals=z.copy(),methane_scp=F(scp),cellulosic_sugar=F(cs),
      each_month_meat_slaughtered=F(meat),max_consumed_culled_kcals_each_month=np.cumsum(np.array(meat,dtype=float)),
      feed=F(feed if feed is not None else z),biofuel=F(bio if bio is not None else z))
    return c,t
def val(v): return v.varValue if hasattr(v,'varValue') else float(v)
def solve(c,t):
    o=Optimizer(c,t); t0=time.time()
    model,v,mc,z=o.optimize_to_humans(c,t)
    N=c['NMONTHS']
    al={k:[round(val(v[k][m]),4) for m in range(N)] for k in ['stored_food_to_humans','crops_food_to_humans','meat_eaten','methane_scp_to_humans','cellulosic_sugar_to_humans']}
    return z, al, time.time()-t0
# G1 instance: stored food 1, meat slaughter 1,1,1, scp big in month 2
c,t=mk(3, sf=1, crops=[0,0,0], meat=[1,1,1], scp=[0,0,10], cs=[0,0,0])
print('G1', solve(c,t))
c,t=mk(3, sf=6, crops=[0,6,0], meat=[0,0,0], scp=[0,0,0], cs=[0,0,0])
print('A', solve(c,t))
c,t=mk(14, sf=14, crops=[0]*14, meat=[0]*14, scp=[0]*14, cs=[0]*14, store=False)
print('B nostorage', solve(c,t))
c,t=mk(4, sf=4, crops=[0,4,0,4], meat=[0,0,0,0], scp=[0,0,0,0], cs=[0,0,0,0], waste=50.0)
print('C waste50', solve(c,t))
