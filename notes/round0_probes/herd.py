import sys, os, numpy as np
os.chdir('/repo'); sys.path.insert(0,'/repo')
from src.food_system import animal_populations as ap
from src.food_system.food import Food
Food.conversions.set_nutrition_requirements(2100,47,51,False,False,1e7)
def run(cc, feed, grass, scen, N=48):
    f=ap.Debugging.available_feed_function(feed,N); g=ap.Debugging.available_grass_function(grass,N)
    kd={"KCALS_PER_CHICKEN":1.65*1525/1e9,"KCALS_PER_PIG":86*3590/1e9,"KCALS_PER_SMALL_ANIMAL":2.36*1525/1e9,"KCALS_PER_MEDIUM_ANIMAL":24.6*3590/1e9,"KCALS_PER_LARGE_ANIMAL":269.7*2750/1e9}
    animals,fu,gu=ap.main(cc,f,g,scen,None,0,kd)
    worst=0
    for a in animals:
        n=len(a.population)-1
        for m in range(n):
            start=a.population[m]; end=a.population[m+1]
            births=a.births_animals_month[m]
            tr=a.transfer_population[m]
            ret=a.retiring_milk_animals[m] if a.animal_function=='milk' else 0
            od=a.other_death_causes_other_than_starving[m+1]
            sl=a.slaughter[m+1]; st=a.other_death_starving[m+1]; hk=a.total_homekill_this_month[m+1]
            tin = tr if a.animal_function!='milk' else 0
            exp=start+births+tin-ret-od-sl-st-hk
            exp=max(exp,0)
            d=abs(exp-end)/max(1,start)
            if d>worst: worst=d; w=(a.animal_type,m,start,end,exp)
    print(cc,scen,feed,grass,'species',len(animals),'worst rel',worst, w if worst>1e-9 else '', 'feed used max',fu.kcals.max(),'grass',gu.kcals.max())
    return animals
for cc in ['USA','ARG','IND','WOR','DJI']:
    for scen in ['baseline','reduced','feed_only_ruminants']:
        for feed,grass in [(0,0),(1e9,1e9),(100,500)]:
            try: run(cc,feed,grass,scen)
            except BaseException as e: print(cc,scen,feed,grass,'EXC',repr(e)[:300])
