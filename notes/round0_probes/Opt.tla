---- MODULE Opt ----
EXTENDS Integers, Sequences, TLC, FiniteSets
CONSTANTS N, SF, Crops, Meat, Scp, ZCODE, CAPSCP
VARIABLES m, sf, store, meatLeft, zmin
vars == <<m, sf, store, meatLeft, zmin>>
RECURSIVE Sum(_,_)
Sum(s,k) == IF k = 0 THEN 0 ELSE s[k] + Sum(s,k-1)
Min(a,b) == IF a < b THEN a ELSE b
Init == m = 1 /\ sf = SF /\ store = 0 /\ meatLeft = Sum(Meat,N) /\ zmin = 1000
Alloc == /\ m <= N
         /\ \E a \in 0..sf, c \in 0..(store + Crops[m]), e \in 0..Min(meatLeft, Sum(Meat,m)), s \in 0..Min(Scp[m],CAPSCP) :
              /\ (m = N => (a = sf /\ c = store + Crops[m]))
              /\ sf' = sf - a
              /\ store' = store + Crops[m] - c
              /\ meatLeft' = meatLeft - e
              /\ zmin' = Min(zmin, a + c + e + s)
              /\ m' = m + 1
Next == Alloc
Spec == Init /\ [][Next]_vars
NoBetter == (m = N + 1) => zmin <= ZCODE
====
