import sys, os, numpy as np, io, contextlib, yaml
os.chdir('/repo'); sys.path.insert(0,'/repo')
from src.food_system.food import Food
from src.food_system.animal_populations import AnimalSpecies
Food.conversions.set_nutrition_requirements(2100,47,51,False,False,1e7)
# C07
a=AnimalSpecies('meat_cattle','cattle'); a.set_animal_attributes(100,12,'meat',1.0,'ruminant','large',5)
a.LSU_factor=1; a.reset_NE_balance(); req=a.NE_balance.kcals
g=Food(0.0,0,0); f=Food(req*0.6/0.8,0,0)
a.feed_the_species(g,f,True); print('C07 fed',a.population_fed,'of',a.current_population,'delivered 60%')
# C11
for inc in [(False,False),(True,False)]:
    Food.conversions.set_nutrition_requirements(2100,47,51,inc[0],inc[1],1e7)
    s1=Food(1,5,1); s2=Food(1,1,1); l1=Food([1],[5],[1]); l2=Food([1],[1],[1])
    print('C11 include_fat',inc[0],'any_greater_than scalar',s1.any_greater_than(s2),'list',l1.any_greater_than(l2))
r=Food.ratio_one(); x=Food(3,3,3)
print('C11 ratio*food units',(r*x).units,' food*ratio',(x*r).units)
l=Food([1,2],[1,2],[1,2]); print('C11 getitem units',l[0].units, l[0].kcals)
# C13
print('C13 strip', 'asses_head_start'.strip('_start'), 'rabbit_head_start'.strip('_start'),'turkey_head_start'.strip('_start'))
# C09
from src.food_system.outdoor_crops import OutdoorCrops
c={'NMONTHS':48,'STARTING_MONTH_NUM':5,'BASELINE_CROP_KCALS':1e3,'BASELINE_CROP_FAT':10,'BASELINE_CROP_PROTEIN':10,'ADD_OUTDOOR_GROWING':True,'WASTE_DISTRIBUTION':{'CROPS':0},'WASTE_RETAIL':0,'OG_USE_BETTER_ROTATION':True,'ROTATION_IMPROVEMENTS':{'POWER_LAW_IMPROVEMENT':0.8,'FAT_RATIO':1,'PROTEIN_RATIO':1},'SEASONALITY':[1/12]*12,'COUNTRY_CODE':'XXX','RATIO_INCREASED_CROP_AREA':1,'INITIAL_HARVEST_DURATION_IN_MONTHS':8,'DELAY':{'ROTATION_CHANGE_IN_MONTHS':2}}
for i in range(1,12): c['RATIO_CROPS_YEAR%d'%i]=0.5
oc=OutdoorCrops(c); oc.calculate_rotation_ratios(c); oc.calculate_monthly_production(c)
oc.set_crop_production_minus_greenhouse_area(c,np.zeros(48))
print('C09 grown',oc.KCALS_GROWN[12],'production',oc.production.kcals[12], oc.production.kcals[:3])
c['OG_USE_BETTER_ROTATION']=False
oc=OutdoorCrops(c); oc.calculate_rotation_ratios(c); oc.calculate_monthly_production(c)
oc.set_crop_production_minus_greenhouse_area(c,np.full(48,0.25))
print('C09 norelocation gh=25% grown',oc.NO_RELOCATION_KCALS_GROWN[12],'production',oc.production.kcals[12])
