---- MODULE Big ----
EXTENDS Integers, Sequences, TLC
B == 10000
\* nonneg little-endian limb sequences
RECURSIVE AddC(_,_,_)
AddC(a,b,c) == IF a = <<>> /\ b = <<>> THEN (IF c = 0 THEN <<>> ELSE <<c>>)
               ELSE LET x == IF a = <<>> THEN 0 ELSE Head(a)
                        y == IF b = <<>> THEN 0 ELSE Head(b)
                        s == x + y + c
                    IN <<s % B>> \o AddC(IF a = <<>> THEN <<>> ELSE Tail(a), IF b = <<>> THEN <<>> ELSE Tail(b), s \div B)
Add(a,b) == AddC(a,b,0)
RECURSIVE MulS(_,_,_)
MulS(a,k,c) == IF a = <<>> THEN (IF c = 0 THEN <<>> ELSE <<c % B>> \o MulS(<<>>,k,c \div B))
               ELSE LET p == Head(a)*k + c IN <<p % B>> \o MulS(Tail(a),k,p \div B)
RECURSIVE Mul(_,_)
Mul(a,b) == IF b = <<>> THEN <<>> ELSE Add(MulS(a,Head(b),0), <<0>> \o Mul(a,Tail(b)))
Trim(a) == a
VARIABLE i, acc
Init == i = 0 /\ acc = <<1>>
Next == i < 20000 /\ i' = i+1 /\ acc' = LET p == Mul(<<1234,5678,9012,34>>, <<4321,8765,21,7>>) IN Add(SubSeq(p,1,4), <<i % B>>)
Spec == Init /\ [][Next]_<<i,acc>>
====
