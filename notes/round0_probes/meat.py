import sys, os, yaml, io, contextlib, numpy as np
os.chdir('/repo'); sys.path.insert(0,'/repo')
from src.scenarios.run_model_no_trade import ScenarioRunnerNoTrade
from src.optimizer.optimizer import Optimizer
cap=[]
oh=Optimizer.optimize_to_humans; oa=Optimizer.optimize_feed_to_animals
def wh(self,c,t):
    r=oh(self,c,t); cap.append(('H',self,r)); return r
def wa(self,c,t,m):
    r=oa(self,c,t,m); cap.append(('A',self,r)); return r
Optimizer.optimize_to_humans=wh; Optimizer.optimize_feed_to_animals=wa
cfg=yaml.safe_load(open('scenarios/argentina.yaml'))
sims=list(cfg['simulations'].values())
def val(v): return v.varValue if hasattr(v,'varValue') else float(v)
for c in sys.argv[1].split(','):
  for si in [2,3,4]:
    for stock in ['zero','no_stored_between_years']:
      s=dict(sims[si]); s['NMONTHS']=120; s['ratio_stocks_untouched']=stock
      cap.clear()
      try:
        with contextlib.redirect_stdout(io.StringIO()):
          ScenarioRunnerNoTrade().run_model_no_trade(title='vt_meat',create_pptx_with_all_countries=False,scenario_option=s,countries_list=[c],return_results=True)
      except BaseException as e:
        print(c,si,stock,'EXC',repr(e)[:100]); continue
      for ri,(k,opt,(model,v,mc,pf)) in enumerate(cap):
        co=opt.consts_for_optimizer; w=1/(1-co['MEAT_WASTE_RETAIL']/100)
        eaten=np.array([val(v['meat_eaten'][m])*w for m in range(120)])
        sl=opt.time_consts['each_month_meat_slaughtered'].kcals
        need=co['BILLION_KCALS_NEEDED']
        exc=(np.cumsum(eaten)-np.cumsum(sl))/need*100
        print(c,si,stock,'round',ri,k,'max cumulative overdraw %need',round(exc.max(),4),'at m',int(exc.argmax()),'pf',round(pf,3))
