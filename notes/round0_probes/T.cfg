SPECIFICATION Spec
CHECK_DEADLOCK FALSE
CONSTRAINT Prog
POSTCONDITION Accepted
