SPECIFICATION Spec
CHECK_DEADLOCK FALSE
INVARIANT NoBetter
CONSTANTS
 N = 14
 SF = 14
 Crops <- cCrops
 Meat <- cMeat
 Scp <- cScp
 ZCODE = 4
 CAPSCP = 2
