import sys, os, io, contextlib, json, time, traceback
import numpy as np
S='/dev/shm/vt/scratch'
os.chdir(S); sys.path.insert(0,S)
import yaml, pandas as pd
from multiprocessing import Pool

def presets():
    cfg=yaml.safe_load(open('scenarios/argentina.yaml'))
    sims=list(cfg['simulations'].items())
    P={}
    for name,s in sims:
        s=dict(s); s['NMONTHS']=120; P[name.replace('argentina_','')]=s
    # manuscript-like
    base=dict(P['net_nuclear_winter']); 
    m1=dict(base); m1.update(scenario='no_resilient_foods',waste='baseline_in_country',shutoff='continued_after_10_percent_fed',meat_strategy='baseline_breeding',ratio_stocks_untouched='no_stored_between_years',nutrition='catastrophe',intake_constraints='enabled'); P['ms_worst']=m1
    m2=dict(m1); m2.update(waste='tripled_prices_in_country',shutoff='long_delayed_shutoff_after_10_percent_fed'); P['ms_simple']=m2
    m3=dict(m2); m3.update(ratio_stocks_untouched='zero'); P['ms_simple_ration']=m3
    m4=dict(m3); m4.update(meat_strategy='feed_only_ruminants',shutoff='long_delayed_shutoff'); P['ms_example']=m4
    m5=dict(m4); m5.update(scenario='all_resilient_foods'); P['ms_example_res']=m5
    m6=dict(m1); m6.update(ratio_stocks_untouched='baseline_no_stored_between_years'); P['ms_worst_buf']=m6
    return P

def work(args):
    cc,pname,s=args
    from src.scenarios.run_model_no_trade import ScenarioRunnerNoTrade
    from src.scenarios.run_scenario import ScenarioRunner
    from src.optimizer.optimizer import Optimizer
    from src.optimizer.parameters import Parameters
    cap={'rounds':[],'interp':[]}
    if not hasattr(Optimizer,'_vt'):
        Optimizer._vt=True
        oh=Optimizer.optimize_to_humans; oa=Optimizer.optimize_feed_to_animals
        def wh(self,c,t):
            r=oh(self,c,t); CAP['rounds'].append(('H',self,r)); return r
        def wa(self,c,t,m):
            r=oa(self,c,t,m); CAP['rounds'].append(('A',self,r)); return r
        Optimizer.optimize_to_humans=wh; Optimizer.optimize_feed_to_animals=wa
        orr=ScenarioRunner.run_optimizer
        def wr(self,*a,**k):
            r=orr(self,*a,**k); CAP['interp'].append(r); return r
        ScenarioRunner.run_optimizer=wr
        of=Parameters.compute_parameters_first_round
        def wf(self,*a,**k):
            r=of(self,*a,**k); CAP['first']=r; return r
        Parameters.compute_parameters_first_round=wf
    global CAP
    CAP=cap
    buf=io.StringIO(); t0=time.time()
    rec=dict(cc=cc,preset=pname)
    try:
        with contextlib.redirect_stdout(buf), contextlib.redirect_stderr(buf):
            out=ScenarioRunnerNoTrade().run_model_no_trade(title='vt_%s_%s'%(cc,pname),create_pptx_with_all_countries=False,scenario_option=dict(s),countries_list=[cc],return_results=True)
        rec['ok']=True
    except BaseException as e:
        rec['ok']=False; rec['exc']=repr(e)[:300]; rec['tb']=traceback.format_exc()[-600:]
    txt=buf.getvalue()
    rec['banner_feed']='ASSERT FAILED' in txt; rec['banner_r3']='Humans starving in round 3' in txt; rec['warn_skip2']='Skipping round 2' in txt; rec['patched']='cannot run' in txt
    rec['t']=round(time.time()-t0,2)
    def val(v): return v.varValue if hasattr(v,'varValue') else float(v)
    try:
        rec['pf']=[float(i.percent_people_fed) for i in cap['interp']]
        rec['kinds']=[k for k,_,_ in cap['rounds']]
        if 'first' in cap:
            ci=cap['first'][0]['inputs']; rec['T']=ci['MINIMUM_PERCENT_FED_BEFORE_NONHUMAN_CONSUMPTION_ALLOWED']
        if cap['interp']:
            r3=cap['interp'][-1]; rec['maxFB']=float(np.max(r3.feed_and_biofuels_sum.kcals))
        rr=[]
        for k,opt,(model,v,mc,z) in cap['rounds']:
            c=opt.consts_for_optimizer; N=c['NMONTHS']; need=c['BILLION_KCALS_NEEDED']; d=dict(kind=k,z=float(z))
            if c['ADD_MEAT']:
                w=1/(1-c['MEAT_WASTE_RETAIL']/100)
                e=np.array([val(v['meat_eaten'][m])*w for m in range(N)]); sl=opt.time_consts['each_month_meat_slaughtered'].kcals
                d['meat_over']=float((np.cumsum(e)-np.cumsum(sl)).max()/need)
                d['meat_left']=float((sl.sum()-e.sum())/need)
            if c['ADD_STORED_FOOD']:
                w=1/(1-c['STORED_FOOD_WASTE_RETAIL']/100)
                u=sum(val(v['stored_food_to_humans'][m])*w+val(v['stored_food_feed'][m])+val(v['stored_food_biofuel'][m]) for m in range(N))
                d['sf_left']=float((c['stored_food'].initial_available.kcals-u)/need)
            if c['ADD_OUTDOOR_GROWING']:
                w=1/(1-c['CROP_WASTE_RETAIL']/100)
                u=np.array([val(v['crops_food_to_humans'][m])*w+val(v['crops_food_feed'][m])+val(v['crops_food_biofuel'][m]) for m in range(N)])
                p=opt.time_consts['outdoor_crops'].production.kcals
                d['crop_over']=float((np.cumsum(u)-np.cumsum(p)).max()/need); d['crop_left']=float((p.sum()-u.sum())/need)
            rr.append(d)
        rec['rounds']=rr
    except BaseException as e:
        rec['post_exc']=repr(e)[:200]
    return rec

if __name__=='__main__':
    P=presets()
    sel=sys.argv[1].split(',')
    tab=pd.read_csv('data/no_food_trade/computer_readable_combined.csv')
    ccs=list(tab['iso3'])
    jobs=[(cc,p,P[p]) for p in sel for cc in ccs]
    t0=time.time()
    with Pool(16) as pool, open('/dev/shm/vt/grid_%s.jsonl'%('_'.join(sel))[:80],'w') as f:
        for rec in pool.imap_unordered(work,jobs,chunksize=2):
            f.write(json.dumps(rec)+'\n')
    print('done',len(jobs),'jobs in',round(time.time()-t0,1),'s')
