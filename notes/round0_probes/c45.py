import sys, os, io, contextlib, json, time, traceback
import numpy as np
S='/dev/shm/vt/scratch'
os.chdir(S); sys.path.insert(0,S)
import yaml, pandas as pd
from multiprocessing import Pool
sys.path.insert(0,'/dev/shm/vt')
from grid import presets
CAP=None
def work(args):
    global CAP
    cc,pname,s=args
    from src.scenarios.run_model_no_trade import ScenarioRunnerNoTrade
    from src.scenarios.run_scenario import ScenarioRunner
    from src.optimizer.optimizer import Optimizer
    from src.optimizer import parameters as pm
    from src.food_system.animal_populations import CalculateFeedAndMeat
    if not hasattr(Optimizer,'_vt2'):
        Optimizer._vt2=True
        oi=Optimizer.__init__
        def wi(self,c,t):
            oi(self,c,t); CAP['opts'].append(self)
        Optimizer.__init__=wi
        orr=ScenarioRunner.run_optimizer
        def wr(self,*a,**k):
            r=orr(self,*a,**k); CAP['interp'].append((k.get('title'),r)); return r
        ScenarioRunner.run_optimizer=wr
        oc=CalculateFeedAndMeat.__init__
        def wc(self,*a,**k):
            oc(self,*a,**k); CAP['herds'].append((self,k.get('available_feed'),k.get('available_grass')))
        CalculateFeedAndMeat.__init__=wc
        pm.CalculateFeedAndMeat=CalculateFeedAndMeat
        oh=Optimizer.optimize_to_humans; oa=Optimizer.optimize_feed_to_animals
        def wh(self,c,t):
            r=oh(self,c,t); CAP['z'].append(r[3]); return r
        def wa(self,c,t,m):
            r=oa(self,c,t,m); CAP['z'].append(r[3]); return r
        Optimizer.optimize_to_humans=wh; Optimizer.optimize_feed_to_animals=wa
    CAP=dict(opts=[],interp=[],herds=[],z=[])
    rec=dict(cc=cc,preset=pname); buf=io.StringIO()
    title='vt_%s_%s'%(cc,pname)
    try:
        with contextlib.redirect_stdout(buf), contextlib.redirect_stderr(buf):
            ScenarioRunnerNoTrade().run_model_no_trade(title=title,create_pptx_with_all_countries=False,scenario_option=dict(s),countries_list=[cc],return_results=True)
    except BaseException as e:
        rec['exc']=repr(e)[:200]; return rec
    try:
        out=[]
        # C05: herds vs time_consts. herds list order: round1, (round2), (round3)
        for i,opt in enumerate(CAP['opts']):
            c=opt.consts_for_optimizer; t=opt.time_consts; ci=c['inputs']; need=c['BILLION_KCALS_NEEDED']
            d=dict(round=i)
            out.append(d)
        # map herds to rounds: when 3 optimizers and 3 herds
        nh=len(CAP['herds']); no=len(CAP['opts'])
        rec['nh']=nh; rec['no']=no
        from src.food_system.meat_and_dairy import MeatAndDairy
        for i,(h,af,ag) in enumerate(CAP['herds']):
            # which optimizer? if no==3 and nh==3: same index; if no==1: herd0 -> opt0 (round3 uses round1 herd)
            oi_= i if no==nh else (0 if no==1 else None)
            if oi_ is None: continue
            opt=CAP['opts'][oi_]; c=opt.consts_for_optimizer; t=opt.time_consts; ci=c['inputs']; need=c['BILLION_KCALS_NEEDED']
            md=MeatAndDairy(ci); md.initialize_this_country_animal_kcals(ci)
            N=c['NMONTHS']; meat=np.zeros(N); milkpop=np.zeros(N)
            for a in h.all_animals:
                sl=np.array(a.slaughter)
                if a.animal_type=='chicken': k=md.KCALS_PER_CHICKEN
                elif a.animal_type=='pig': k=md.KCALS_PER_PIG
                elif a.animal_size=='small': k=md.KCALS_PER_SMALL_ANIMAL
                elif a.animal_size=='medium': k=md.KCALS_PER_MEDIUM_ANIMAL
                else: k=md.KCALS_PER_LARGE_ANIMAL
                meat+=sl*k
                if 'milk' in a.animal_type: milkpop+=np.array(a.population)
            meat*= (1-ci['WASTE_DISTRIBUTION']['MEAT']/100)
            milk=milkpop*ci['MILK_YIELD_KG_PER_MILK_BEARING_ANIMAL_PER_YEAR']/12/1000*1e3*610/1e9*(1-ci['WASTE_DISTRIBUTION']['MILK']/100)*(1-ci['WASTE_RETAIL']/100)
            tm=t['each_month_meat_slaughtered'].kcals
            d=out[oi_]
            d['meat_maxdiff']=float(np.abs(tm-meat).max()/need); d['meat_totdiff']=float(abs(tm.sum()-meat.sum())/need)
            d['milk_maxdiff']=float(np.abs(np.array(t['milk_kcals'])-(milk if ci['ADD_MILK'] else 0)).max()/need)
            d['feed_charged_minus_used_min']=float((t['feed'].kcals-h.feed_used.kcals).min()/need)
            d['grass_over']=float((h.grass_used.kcals-ag.kcals).max()/need)
            d['herd_feed_used_sum']=float(h.feed_used.kcals.sum()/need); d['charged_sum']=float(t['feed'].kcals.sum()/need)
        # C04
        for i,(title_r,r) in enumerate(CAP['interp']):
            d=out[i]
            tot=(r.stored_food.kcals+r.outdoor_crops.kcals+r.seaweed.kcals+r.cell_sugar.kcals+r.scp.kcals+r.greenhouse.kcals+r.fish.kcals+r.meat.kcals+r.milk.kcals)
            d['headline']=float(r.percent_people_fed); d['minsum_diff']=float(abs(tot.min()-r.percent_people_fed)); d['z']=float(CAP['z'][i])
            d['head_vs_z_rel']=float(abs(r.percent_people_fed-CAP['z'][i])/max(1e-9,CAP['z'][i])) if r is not None else None
            import re
            fn=re.sub(r'[\\/*?:"<>|\n]', "_", title_r)+'_ykcals.csv'
            df=pd.read_csv(os.path.join(S,'results',fn))
            mx=0
            for col,attr in [('fish','fish_kcals_equivalent'),('cell_sugar','cell_sugar_kcals_equivalent'),('scp','scp_kcals_equivalent'),('greenhouse','greenhouse_kcals_equivalent'),('seaweed','seaweed_kcals_equivalent'),('milk','milk_kcals_equivalent'),('meat','meat_kcals_equivalent'),('immediate_outdoor_crops','immediate_outdoor_crops_kcals_equivalent'),('new_stored_outdoor_crops','new_stored_outdoor_crops_kcals_equivalent'),('stored_food','stored_food_kcals_equivalent')]:
                mx=max(mx,float(np.abs(df[col].values-getattr(r,attr).kcals).max()))
            d['csv_maxdiff']=mx
            ocs=r.immediate_outdoor_crops_kcals_equivalent.kcals+r.new_stored_outdoor_crops_kcals_equivalent.kcals
            # crops eaten in kcals equivalent: unrounded? use outdoor_crops percent -> kcals
            d['split_diff']=float(np.abs(ocs/ r.constants['KCALS_DAILY']*100 - r.outdoor_crops.kcals).max())
        rec['rounds']=out
        for f in os.listdir(os.path.join(S,'results')):
            if f.startswith(title): os.remove(os.path.join(S,'results',f))
    except BaseException as e:
        rec['post_exc']=traceback.format_exc()[-500:]
    return rec
if __name__=='__main__':
    P=presets(); sel=sys.argv[1].split(',')
    tab=pd.read_csv('data/no_food_trade/computer_readable_combined.csv'); ccs=list(tab['iso3'])
    jobs=[(cc,p,P[p]) for p in sel for cc in ccs]
    with Pool(16) as pool, open('/dev/shm/vt/c45.jsonl','w') as f:
        for rec in pool.imap_unordered(work,jobs,chunksize=2): f.write(json.dumps(rec)+'\n')
    print('done',len(jobs))
