---- MODULE T ----
EXTENDS Integers, Sequences, TLC, Json, IOUtils, TLCExt
Traces == ndJsonDeserialize(IOEnv.TRACE_FILE)
VARIABLES tid, l, stock
vars == <<tid, l, stock>>
Tr(t) == Traces[t].ev
Init == /\ tid \in 1..Len(Traces) /\ l = 1 /\ stock = Traces[tid].init
Step == /\ l <= Len(Tr(tid))
        /\ LET e == Tr(tid)[l] IN
             /\ stock - e.use >= 0
             /\ stock' = stock - e.use
        /\ l' = l + 1 /\ UNCHANGED tid
Done == l > Len(Tr(tid)) /\ UNCHANGED vars
Next == Step
Spec == Init /\ [][Next]_vars
\* record progress per trace
ASSUME \A t \in 1..Len(Traces) : TLCSet(t, 0)
Prog == IF l > TLCGet(tid) THEN TLCSet(tid, l) ELSE TRUE
Accepted == \A t \in 1..Len(Traces) : (TLCGet(t) = Len(Tr(t)) + 1) \/ PrintT(<<"REJECT", t, TLCGet(t)>>)
====
