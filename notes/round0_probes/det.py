import sys, os, yaml, hashlib, io, contextlib, numpy as np
os.chdir('/repo'); sys.path.insert(0,'/repo')
from src.scenarios.run_model_no_trade import ScenarioRunnerNoTrade
cfg=yaml.safe_load(open('scenarios/argentina.yaml'))
sims=list(cfg['simulations'].values())
def run(c,si):
    s=dict(sims[si]); s['NMONTHS']=120
    with contextlib.redirect_stdout(io.StringIO()):
        out=ScenarioRunnerNoTrade().run_model_no_trade(title='vt_det',create_pptx_with_all_countries=False,scenario_option=s,countries_list=[c],return_results=True)
    r=list(out[3].values())[0]
    h=hashlib.sha256()
    for k in ['stored_food','outdoor_crops','seaweed','cell_sugar','scp','greenhouse','fish','meat','milk']:
        h.update(np.asarray(getattr(r,k).kcals,dtype=float).tobytes())
    h.update(np.float64(r.percent_people_fed).tobytes())
    for k,v in sorted(r.meat_dictionary.items()): h.update(np.asarray(v,dtype=float).tobytes())
    return r.percent_people_fed, h.hexdigest()[:16]
seq=[tuple(x.split(':')) for x in sys.argv[1].split(',')]
for c,si in seq:
    print(c,si,run(c,int(si)))
