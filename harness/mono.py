"""C12: Mono.tla — monotonicity and scale laws of the real Optimizer on small instances and on captured real inputs."""
import json
import os
import subprocess

from . import common as C
from . import optimum
from . import presets
from . import tracecheck
from .limbs import num


def spec_laws(out, insts, budget):
    """MC_OptimumLaws: the laws on Optimum.tla itself, by exhaustive search (one TLC run per base instance, in parallel);
    returns {(instance id, what): (optimum of the base, optimum of the perturbed member)}"""
    from concurrent.futures import ThreadPoolExecutor
    from .mono_solve import perturbations

    def on_grid(i):
        # Optimum.tla works on integers and people draw g units per unit eaten: every quantity must be a multiple of g
        g = 2 if i["waste"] == 50 else 1
        q = [i["sf"]] + i["crops"] + i["meat"] + i["scp"] + i["feed"]
        return i["waste"] in (0, 50) and all(abs(x - round(x)) < 1e-9 and int(round(x)) % g == 0 for x in q)

    def shard(i):
        probes, pairs, names = [], [], []
        nid = [0]

        def member(j):
            nid[0] += 1
            g = 2 if j["waste"] == 50 else 1
            top = (int(j["sf"]) + int(sum(j["crops"])) + int(sum(j["meat"])) + int(sum(j["scp"]))) // g // j["n"] + 2
            for t in range(1, top + 1):
                probes.append(dict(id=nid[0], mode="probe", n=j["n"], g=g, sf=int(j["sf"]), crops=[int(x) for x in j["crops"]],
                                   meat=[int(x) for x in j["meat"]], scp=[int(x) for x in j["scp"]], feed=[int(x) for x in j["feed"]],
                                   store=j["store"], target=t))
            return nid[0]

        base = member(i)
        for kind, what, j in perturbations(i):
            if not on_grid(j) or kind == "scale":
                continue  # (the grid has no absolute constant: the scale law is checked on the code only)
            m = member(j)
            if what == "x0.5":
                pairs.append(dict(lo=m, hi=base, kind="x2"))
                names.append((what, True))
            else:
                pairs.append(dict(lo=base, hi=m, kind={"more_supply": "ge", "less_waste": "ge", "more_charge": "le", "scale": "x2"}[kind]))
                names.append((what, False))
        wd = C.workdir()
        pf, qf = os.path.join(wd, "law_probes_%d.json" % i["id"]), os.path.join(wd, "law_pairs_%d.json" % i["id"])
        json.dump(probes, open(pf, "w"))
        json.dump(pairs, open(qf, "w"))
        r = C.run_tlc("MC_OptimumLaws", cfg="MC_OptimumLaws.cfg", workers=1, env={"INST_FILE": pf, "PAIR_FILE": qf}, timeout=budget, heap="2g")
        return i, r, names, len(probes)

    res = {}
    npairs = nprobes = 0
    with ThreadPoolExecutor(C.NCPU) as ex:
        shards = list(ex.map(shard, [i for i in insts if on_grid(i)]))
    for i, r, names, np_ in shards:
        if r.error and "timeout" in r.error:
            # a member family whose search does not finish within the tier's budget is left out (recorded, not judged)
            out.extra["spec_law_instances_over_budget"] = out.extra.get("spec_law_instances_over_budget", 0) + 1
            out.tlc_runs.append(dict(name="MC_OptimumLaws:%d (over budget, left out)" % i["id"], **r.summary()))
            continue
        out.add_tlc("MC_OptimumLaws:%d" % i["id"], r)
        rep = None
        for line in r.out.splitlines():
            if line.startswith('"{') and "Laws" in line:
                rep = json.loads(json.loads(line))
        if rep is None:
            out.machinery.append("MC_OptimumLaws produced no report for instance %d: %s" % (i["id"], r.error or r.out[-800:]))
            continue
        if not rep["complete"]:
            out.machinery.append("MC_OptimumLaws: probed target range too narrow for instance %d" % i["id"])
        bad = rep["bad"] if isinstance(rep["bad"], list) else list(rep["bad"].values())
        for b in bad:
            out.violation("spec:OptimumLaw:%s" % b["kind"], "Optimum.tla itself violates the law %s on instance %d (members %s, %s)"
                          % (b["kind"], i["id"], b["lo"], b["hi"]), dict(instance=i, pair=b))
        npairs += rep["npairs"]
        nprobes += np_
        for k, (what, swapped) in enumerate(names):
            lo, hi = rep["opt"][k]
            res[(i["id"], what)] = (hi, lo) if swapped else (lo, hi)
    out.extra["spec_law_pairs"] = npairs
    out.extra["spec_law_probes"] = nprobes
    return res


def run(pid, tier):
    out = C.Outcome(pid, tier)
    out.rule = ("MC_OptimumLaws: the laws decided on Optimum.tla itself by exhaustive search over a family of small instances and their "
                "perturbations (and the code's optimum of every member compared with the specification's); "
                "pairs (instance, perturbed instance) solved by the real Optimizer: every single-supply increase, waste decrease, charge increase "
                "and common scale factor on the small instance family of C02, and sampled single-entry perturbations of the first-round "
                "inputs of real (country, preset) pairs; each pair is one event validated by Mono.tla; distinct = distinct pairs")
    insts = optimum.gen_instances(tier, C.seed())[: (24 if tier == "quick" else 200)]
    jobs = [dict(kind="small", inst=i) for i in insts]
    spec_opt = spec_laws(out, insts[: (12 if tier == "quick" else 48)], 60 if tier == "quick" else 420)
    P = presets.all_presets()
    real = [("ARG", "net_baseline"), ("DJI", "net_nuclear_winter"), ("USA", "ms_worst"), ("EST", "net_nuclear_resilient"), ("IND", "ms_example_res"),
            ("WOR", "net_nuclear_winter"), ("WOR", "net_nuclear_resilient"), ("NZL", "ms_simple_ration"), ("JPN", "net_nuclear_resilient_more_area")]
    if tier != "quick":
        import csv
        with open(os.path.join(C.REPO, "data/no_food_trade/computer_readable_combined.csv")) as fh:
            ccs = [r["iso3"] for r in csv.DictReader(fh)]
        names = sorted(P)
        real += [(cc, names[(i + C.seed()) % len(names)]) for i, cc in enumerate(ccs[::2])]
    V = presets.variations(P)
    P = dict(P, **V)
    real += [("USA", "nw_methane_scp"), ("IND", "nw_cellulosic_sugar"), ("IND", "ms_worst"), ("USA", "nw_cellulosic_sugar")]
    for k, (cc, p) in enumerate(real):
        o = dict(P[p])
        if cc == "WOR":
            o = presets.to_global(o)
        jobs.append(dict(kind="real", cc=cc, preset=p, options=o, seed=C.seed() * 1000 + k))
    wd = C.workdir()
    n = min(C.NCPU, len(jobs))
    procs = []
    # real jobs are slower: spread them first
    jobs.sort(key=lambda j: j["kind"] != "real")
    for i in range(n):
        f = os.path.join(wd, "mono_%d.json" % i)
        json.dump(jobs[i::n], open(f, "w"))
        procs.append((subprocess.Popen([C.PY, "-m", "harness.mono_solve", f, f + ".out"], cwd=C.scratch_repo(), env=C.worker_env(),
                                       stdout=subprocess.DEVNULL, stderr=subprocess.PIPE, text=True), f))
    traces = []
    npairs = 0
    for p, f in procs:
        _, e = p.communicate()
        if p.returncode != 0:
            out.machinery.append("mono_solve failed: " + e[-1200:])
            continue
        for rec in json.load(open(f + ".out")):
            if "error" in rec:
                out.machinery.append("mono_solve job %s: %s" % (rec["job"], rec["error"]))
                continue
            ev = []
            for pr in rec["pairs"]:
                npairs += 1
                so = spec_opt.get((rec["job"]["inst"]["id"], pr["what"])) if rec["job"]["kind"] == "small" else None
                if so is not None and pr["z1"] is not None:
                    # the code's optimum of the perturbed member against the specification's (grid units; floor for off-grid optima)
                    need1 = rec["job"]["inst"]["need"] * (2.0 if pr["what"] == "x2" else 0.5 if pr["what"] == "x0.5" else 1.0)
                    for zc, zs, nd, which in ((pr["z0"], so[0], rec["job"]["inst"]["need"], "base"), (pr["z1"], so[1], need1, pr["what"])):
                        units = zc * nd / 100.0
                        if not (zs - 1e-3 * max(1.0, zs) <= units < zs + 1 + 1e-6):
                            out.violation("CodeOptimumIsSpecOptimum:small", "small instance %d (%s): the Optimizer reports %.4f units, Optimum.tla's exhaustive "
                                          "optimum is %d" % (rec["job"]["inst"]["id"], which, units, zs), dict(job=rec["job"], pair=pr, spec=so))
                ev.append(dict(ev="Pair", kind=pr["kind"], what=pr["what"], solved=pr["z1"] is not None, z0=num(pr["z0"]),
                               z1=num(pr["z1"] if pr["z1"] is not None else 0.0)))
            if ev:
                traces.append(dict(hdr=dict(job=rec["job"], pairs=rec["pairs"]), ev=ev))
    fails = tracecheck.validate("Mono", "Mono.cfg", traces, out)
    for (t, l, clause) in fails:
        pr = t["hdr"]["pairs"][l - 1]
        j = t["hdr"]["job"]
        where = ("small instance %d" % j["inst"]["id"]) if j["kind"] == "small" else "%s %s" % (j["cc"], j["preset"])
        out.violation("%s:%s:%s" % (clause, j["kind"], pr["what"].split("[")[0].split("+")[0].split("-")[0]),
                      "%s: %s changes the optimum from %.6f to %s" % (where, pr["what"], pr["z0"], pr["z1"]), dict(job=j, pair=pr))
    out.distinct_n = npairs
    out.extra["pairs"] = npairs
    out.extra["real_inputs"] = len(real)
    if traces:
        out.sample(dict(pairs=traces[0]["hdr"]["pairs"][:4], job=traces[0]["hdr"]["job"]))
        out.sample(dict(pairs=traces[-1]["hdr"]["pairs"][:3], job={k: v for k, v in traces[-1]["hdr"]["job"].items() if k != "inst"}))
    out.assumptions = ["real inputs are the consts_for_optimizer / time_consts of compute_parameters_first_round; perturbations are applied to "
                       "deep copies (meat perturbations also update the running and total slaughter)",
                       "tolerance 1e-5 relative + 1e-5 absolute on the percentage"]
    return out.finish()
