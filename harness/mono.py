"""C12: Mono.tla — monotonicity and scale laws of the real Optimizer on small instances and on captured real inputs."""
import json
import os
import subprocess

from . import common as C
from . import optimum
from . import presets
from . import tracecheck
from .limbs import num


def run(pid, tier):
    out = C.Outcome(pid, tier)
    out.rule = ("pairs (instance, perturbed instance) solved by the real Optimizer: every single-supply increase, waste decrease, charge increase "
                "and common scale factor on the small instance family of C02, and sampled single-entry perturbations of the first-round "
                "inputs of real (country, preset) pairs; each pair is one event validated by Mono.tla; distinct = distinct pairs")
    insts = optimum.gen_instances(tier, C.seed())[: (24 if tier == "quick" else 200)]
    jobs = [dict(kind="small", inst=i) for i in insts]
    P = presets.all_presets()
    real = [("ARG", "net_baseline"), ("DJI", "net_nuclear_winter"), ("USA", "ms_worst"), ("EST", "net_nuclear_resilient"), ("IND", "ms_example_res"),
            ("WOR", "net_nuclear_winter"), ("WOR", "net_nuclear_resilient"), ("NZL", "ms_simple_ration"), ("JPN", "net_nuclear_resilient_more_area")]
    if tier != "quick":
        import csv
        with open(os.path.join(C.REPO, "data/no_food_trade/computer_readable_combined.csv")) as fh:
            ccs = [r["iso3"] for r in csv.DictReader(fh)]
        names = sorted(P)
        real += [(cc, names[(i + C.seed()) % len(names)]) for i, cc in enumerate(ccs[::2])]
    for k, (cc, p) in enumerate(real):
        o = dict(P[p])
        if cc == "WOR":
            o = presets.to_global(o)
        jobs.append(dict(kind="real", cc=cc, preset=p, options=o, seed=C.seed() * 1000 + k))
    wd = C.workdir()
    n = min(C.NCPU, len(jobs))
    procs = []
    # real jobs are slower: spread them first
    jobs.sort(key=lambda j: j["kind"] != "real")
    for i in range(n):
        f = os.path.join(wd, "mono_%d.json" % i)
        json.dump(jobs[i::n], open(f, "w"))
        procs.append((subprocess.Popen([C.PY, "-m", "harness.mono_solve", f, f + ".out"], cwd=C.scratch_repo(), env=C.worker_env(),
                                       stdout=subprocess.DEVNULL, stderr=subprocess.PIPE, text=True), f))
    traces = []
    npairs = 0
    for p, f in procs:
        _, e = p.communicate()
        if p.returncode != 0:
            out.machinery.append("mono_solve failed: " + e[-1200:])
            continue
        for rec in json.load(open(f + ".out")):
            if "error" in rec:
                out.machinery.append("mono_solve job %s: %s" % (rec["job"], rec["error"]))
                continue
            ev = []
            for pr in rec["pairs"]:
                npairs += 1
                ev.append(dict(ev="Pair", kind=pr["kind"], what=pr["what"], solved=pr["z1"] is not None, z0=num(pr["z0"]),
                               z1=num(pr["z1"] if pr["z1"] is not None else 0.0)))
            if ev:
                traces.append(dict(hdr=dict(job=rec["job"], pairs=rec["pairs"]), ev=ev))
    fails = tracecheck.validate("Mono", "Mono.cfg", traces, out)
    for (t, l, clause) in fails:
        pr = t["hdr"]["pairs"][l - 1]
        j = t["hdr"]["job"]
        where = ("small instance %d" % j["inst"]["id"]) if j["kind"] == "small" else "%s %s" % (j["cc"], j["preset"])
        out.violation("%s:%s:%s" % (clause, j["kind"], pr["what"].split("[")[0].split("+")[0].split("-")[0]),
                      "%s: %s changes the optimum from %.6f to %s" % (where, pr["what"], pr["z0"], pr["z1"]), dict(job=j, pair=pr))
    out.distinct_n = npairs
    out.extra["pairs"] = npairs
    out.extra["real_inputs"] = len(real)
    if traces:
        out.sample(dict(pairs=traces[0]["hdr"]["pairs"][:4], job=traces[0]["hdr"]["job"]))
        out.sample(dict(pairs=traces[-1]["hdr"]["pairs"][:3], job={k: v for k, v in traces[-1]["hdr"]["job"].items() if k != "inst"}))
    out.assumptions = ["real inputs are the consts_for_optimizer / time_consts of compute_parameters_first_round; perturbations are applied to "
                       "deep copies (meat perturbations also update the running and total slaughter)",
                       "tolerance 1e-5 relative + 1e-5 absolute on the percentage"]
    return out.finish()
