"""Spec -> code for C15: replays the aggregate cases of Process.tla through the real run_model_no_trade with the
per-country optimiser stubbed by the fraction the case prescribes. cwd = scratch copy. argv: cases.ndjson report.json"""
import contextlib
import io
import json
import os
import sys
from types import SimpleNamespace

sys.path.insert(0, os.getcwd())
POP = {"ARG": 45e6, "DJI": 1e6, "NZL": 5e6, "USA": 330e6, "MUS": 2e6, "SWT": 3e6}


def main():
    import pandas as pd
    import src.scenarios.run_model_no_trade as m

    full = pd.read_csv("data/no_food_trade/computer_readable_combined.csv")
    sub = full[full["iso3"].isin(list(POP))].copy()
    sub["population"] = [POP[c] for c in sub["iso3"]]
    # (a country may have no cropland at all - Singapore has none - and is a country like any other for the aggregate)
    sub.loc[sub["iso3"] == "DJI", "crop_area_1000ha"] = 0.0
    names = {r["iso3"]: r["country"] for _, r in sub.iterrows()}
    real_read = pd.read_csv

    def fake_read(path, *a, **k):
        if str(path).endswith("computer_readable_combined.csv"):
            return sub.copy()
        return real_read(path, *a, **k)

    m.pd.read_csv = fake_read
    rep = dict(cases=0, mismatches=[], n_mismatch=0, calls=0)

    def bad(key, d):
        rep["n_mismatch"] += 1
        if sum(1 for x in rep["mismatches"] if x["key"] == key) < 3:
            rep["mismatches"].append(dict(key=key, **d))

    ncase = [0]
    orig_rofc = m.ScenarioRunnerNoTrade.run_optimizer_for_country
    shared_runner = m.ScenarioRunnerNoTrade()
    for line in open(sys.argv[1]):
        c = json.loads(line)
        if c["k"] != "Aggregate":
            continue
        rep["cases"] += 1
        ratio = {k: v[0] / v[1] for k, v in c["ratio"].items()}
        called = []
        # every seventh case one selected country's optimisation fails (the runner reports NaN for it): it then counts neither in
        # the people considered nor in the people fed, and has no entry in the results (Aggregate over Selected minus Failed)
        failing = None
        if rep["cases"] % 7 == 0 and len(c["selected"]) >= 2:
            failing = sorted(c["selected"])[rep["cases"] % len(c["selected"])]

        def stub(self, country_data, scenario_option, create_pptx_with_all_countries, show_country_figures, save_all_results,
                 figure_save_postfix="", title="Untitled"):
            cc = country_data["iso3"]
            called.append(cc)
            if cc == failing:
                return (float("nan"), "stub", SimpleNamespace(percent_people_fed=float("nan"), iso3=cc))
            return (ratio[cc], "stub", SimpleNamespace(percent_people_fed=ratio[cc] * 100, iso3=cc))

        m.ScenarioRunnerNoTrade.run_optimizer_for_country = stub
        lst = [("!" + e[1]) if e[0] == "!" else e[1] for e in c["list"]]
        kinds = {e[0] for e in c["list"]}
        form = "empty" if not lst else "exclusion" if kinds == {"!"} else "inclusion" if kinds == {"+"} else "mixed"
        # every third case goes through one long-lived runner object (a runner is documented to be reusable), the others through a fresh one
        ncase[0] += 1
        runner = shared_runner if ncase[0] % 3 == 0 else m.ScenarioRunnerNoTrade()
        popov = 7.0e6 if ncase[0] % 5 == 0 else None
        sopt = {"scale": "country"} if popov is None else {"scale": "country", "population": popov}
        passed = list(lst)
        console = io.StringIO()
        try:
            with contextlib.redirect_stdout(console):
                world, net_pop, net_pop_fed, results = runner.run_model_no_trade(
                    title="agg", create_pptx_with_all_countries=False, scenario_option=dict(sopt), countries_list=passed,
                    return_results=True)
        except BaseException as ex:  # noqa
            bad("Aggregate:exception:%s" % form, dict(case=c, exc=repr(ex)[:160]))
            continue
        if passed != lst:
            # (the selection is the caller's: the yaml front end and run_many_options hand the same list to one run after another)
            bad("SelectionExact:%s:callers-list-rewritten" % form, dict(case=c, before=lst, after=passed))
        want_sel = sorted(c["selected"])
        ran_ok = [x for x in want_sel if x != failing]
        if sorted(called) != want_sel:
            bad("SelectionExact:%s" % form, dict(case=c, ran=sorted(called), want=want_sel))
            continue
        if sorted(results.keys()) != sorted(names[x] for x in ran_ok) or len(called) != len(set(called)):
            bad("EachOnce:%s" % form, dict(case=c, keys=sorted(results.keys())))
        want_tot = c["tot"] * 1e6
        want_fed = c["fed2"] / 400 * 1e6
        if failing is not None:
            want_tot = sum(POP[x] for x in ran_ok)
            want_fed = sum(POP[x] * min(1.0, ratio[x]) for x in ran_ok)
        if popov is not None:
            # the documented numeric override of a table column applies to every country of the run: each is simulated with, and
            # therefore weighs, the overridden population
            want_tot = popov * len(ran_ok)
            want_fed = sum(popov * min(1.0, ratio[x]) for x in ran_ok)
        if abs(net_pop - want_tot) > 1e-6 * max(1, want_tot) or abs(net_pop_fed - want_fed) > 1e-6 * max(1, want_fed):
            bad("AggregateIsCappedMean:%s" % form, dict(case=c, got=[float(net_pop), float(net_pop_fed)], want=[want_tot, want_fed]))
        # the fraction the runner itself announces (console, map title): the same quotient to four decimals, "nan" only when nobody was considered
        said = [ln.split(":", 1)[1].strip() for ln in console.getvalue().splitlines() if ln.startswith("Fraction of this population fed:")]
        want_said = "nan" if want_tot <= 0 else str(round(float(want_fed) / float(want_tot), 4))
        if len(said) != 1 or (said[0] != want_said and not (said[0] != "nan" and want_said != "nan" and abs(float(said[0]) - float(want_said)) <= 1.5e-4)):
            bad("AggregateIsCappedMean:%s:announced-fraction" % form, dict(case=c, said=said, want=want_said))
        if not (0 <= net_pop_fed <= net_pop * (1 + 1e-12)):
            bad("Within01:%s" % form, dict(case=c, got=[float(net_pop), float(net_pop_fed)]))
        rep["calls"] += len(called)
        # the other aggregation of the code base: Interpreter.sum_many_results_together adds the countries' food series (converted
        # with each country's own population) and re-expresses the total for the summed population; for the same selection and
        # fractions it must give the population-weighted mean (capped at 100 % per country when asked to)
        if len(want_sel) >= 1 and rep["cases"] % 4 == 0 and failing is None:
            try:
                sum_many_case(c, want_sel, ratio, bad, form)
                rep["sum_many"] = rep.get("sum_many", 0) + 1
            except BaseException as ex:  # noqa
                bad("SumMany:exception:%s" % form, dict(case=c, exc=repr(ex)[:200]))
    # one aggregate with nothing stubbed, the way the web interface asks for it (results returned and every table saved)
    if len(sys.argv) > 3:
        m.ScenarioRunnerNoTrade.run_optimizer_for_country = orig_rofc
        m.pd.read_csv = real_read
        job = json.load(open(sys.argv[3]))
        try:
            with contextlib.redirect_stdout(io.StringIO()), contextlib.redirect_stderr(io.StringIO()):
                world, net_pop, net_pop_fed, results = m.ScenarioRunnerNoTrade().run_model_no_trade(
                    title="agg_real", create_pptx_with_all_countries=False, scenario_option=dict(job["options"]), countries_list=list(job["countries"]),
                    return_results=True, save_all_results=True)
            rows = {r["iso3"]: r for _, r in full.iterrows()}
            want_names = sorted(rows[c]["country"] for c in job["countries"])
            if sorted(results.keys()) != want_names:
                bad("EachOnce:real-run:save_all_results", dict(keys=sorted(results.keys()), want=want_names))
            else:
                want_tot = sum(float(rows[c]["population"]) for c in job["countries"])
                want_fed = sum(float(rows[c]["population"]) * min(1.0, results[rows[c]["country"]].percent_people_fed / 100.0) for c in job["countries"])
                if abs(net_pop - want_tot) > 1e-6 * want_tot or abs(net_pop_fed - want_fed) > 1e-6 * max(1.0, want_fed):
                    bad("AggregateIsCappedMean:real-run", dict(got=[float(net_pop), float(net_pop_fed)], want=[want_tot, want_fed]))
            rep["real_runs"] = len(job["countries"])
        except BaseException as ex:  # noqa
            bad("Aggregate:exception:real-run", dict(exc=repr(ex)[:200]))
    json.dump(rep, open(sys.argv[2], "w"))


def sum_many_case(c, sel, ratio, bad, form):
    import numpy as np
    from src.food_system.food import Food
    from src.optimizer.interpret_results import Interpreter

    def pct(v):
        return Food(np.array([v, v], dtype=float), np.zeros(2), np.zeros(2), "percent people fed each month", "percent people fed each month",
                    "percent people fed each month")

    res = {}
    for cc in sel:
        i = SimpleNamespace()
        i.include_fat = i.include_protein = False
        i.time_months_middle = [0.5, 1.5]
        i.constants = dict(POP=POP[cc], inputs=dict(NUTRITION=dict(KCALS_DAILY=2100, FAT_DAILY=47, PROTEIN_DAILY=51)),
                           ADD_FISH=True, ADD_CELLULOSIC_SUGAR=False, ADD_METHANE_SCP=False, ADD_GREENHOUSES=False, ADD_SEAWEED=False,
                           ADD_MILK=True, ADD_MEAT=True, ADD_OUTDOOR_GROWING=True, ADD_STORED_FOOD=True)
        p = ratio[cc] * 100.0
        # the country's percent fed split over three foods
        i.stored_food_to_humans, i.fish, i.meat = pct(p / 2), pct(p / 4), pct(p / 4)
        for nm in ("cell_sugar", "scp", "greenhouse", "seaweed", "milk", "immediate_outdoor_crops_to_humans", "new_stored_outdoor_crops_to_humans"):
            setattr(i, nm, pct(0.0))
        i.percent_people_fed = p
        res[cc] = i
    tot = sum(POP[cc] for cc in sel)
    for cap in (False, True):
        with contextlib.redirect_stdout(io.StringIO()):
            g = Interpreter.sum_many_results_together(res, cap)
        want = sum(POP[cc] * (min(1.0, ratio[cc]) if cap else ratio[cc]) for cc in sel) / tot * 100.0
        got = np.asarray(g.kcals_fed, dtype=float)
        if got.shape != (2,) or not np.all(np.abs(got - want) <= 1e-9 * max(1.0, want)):
            bad("SumManyIsWeightedMean:%s:%s" % ("capped" if cap else "uncapped", form), dict(case=c, got=[float(x) for x in np.atleast_1d(got)], want=want))


if __name__ == "__main__":
    main()
