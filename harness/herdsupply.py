"""C05: HerdSupply.tla — herd tables vs the meat / milk / feed series handed to each Optimizer, per corpus run and round."""
from . import common as C
from . import corpus
from . import tracecheck
from .limbs import num

CLS = {"KCALS_PER_CHICKEN": "chicken", "KCALS_PER_PIG": "pig", "KCALS_PER_SMALL_ANIMAL": "small", "KCALS_PER_MEDIUM_ANIMAL": "medium",
       "KCALS_PER_LARGE_ANIMAL": "large"}


def meat_class(animal_type, size):
    """chicken | pig | small (not chicken) | medium (not pig) | large -- stated here independently of the code."""
    if animal_type == "chicken":
        return "chicken"
    if animal_type == "pig":
        return "pig"
    return size


def herd_for_round(run, rnd):
    tags = [h["tag"] for h in run["herds"]]
    if rnd in (1, 2):
        want = rnd
    else:
        want = 3 if 3 in tags else 1
    for h in run["herds"]:
        if h["tag"] == want:
            return h
    return None


_STOCK = {}


def stock_row(cc):
    if not _STOCK:
        import csv
        import os
        with open(os.path.join(C.REPO, "data/no_food_trade/animal_feed_data/FAOSTAT_head_and_slaughter.csv")) as fh:
            for r in csv.DictReader(fh):
                _STOCK[r["iso3"]] = r
    return _STOCK.get(cc)


def configured_heads(run, h):
    """[initial, configured] per species, in thousand head: the scenario's <species>_head override, else the stock table's value"""
    row = stock_row(run["job"]["cc"])
    out = []
    for sp in h["species"]:
        if sp.get("initial") is None or sp["initial"] != sp["initial"]:
            continue
        key = sp["type"] + "_head"
        if key in run["job"]["options"]:
            cfg = float(run["job"]["options"][key])
        elif row is not None and row.get(key) not in (None, ""):
            cfg = float(row[key])
        else:
            continue
        out.append(dict(initial=num(sp["initial"], 1e3), configured=num(cfg, 1e3)))
    return out


def round_trace(run, lp):
    h = herd_for_round(run, lp["round"])
    if h is None:
        # no herd simulation was built during this run for this round (e.g. one left over from an earlier run was reused)
        return dict(hdr=dict(cc=run["job"]["cc"], preset=run["job"]["preset"], round=lp["round"], kind=lp["kind"], herd_tag=None, species=[]),
                    ev=[dict(ev="NoHerd")])
    inp = run["inputs"]
    n = lp["consts"]["NMONTHS"]
    s = lp["series"]
    kh = {CLS[k]: num(v * 1e6) for k, v in run["kcals_per_head"].items()}  # bn kcal per million head
    ev = [dict(ev="Begin", kind="humans" if lp["kind"] == "H" else "animals", round=lp["round"], n=n, kcalHead=kh,
               wDistMeat=num(inp["waste_dist_meat"]), wDistMilk=num(inp["waste_dist_milk"]), wRetail=num(inp["waste_retail"]),
               milkYield=num(inp["milk_yield"]), addMilk=inp["add_milk"], addMeat=lp["consts"]["add"]["meat"],
               heads=configured_heads(run, h),
               kg=dict(chicken=num(inp["kg_meat_per_chicken"]), pig=num(inp["kg_meat_per_pig"]), large=num(inp["kg_meat_per_large_animal"])))]
    feed_charged = s["feed"] if lp["kind"] == "H" else s["max_feed"]
    # what the feed-maximising round allocated to feed each month (billion kcal), from its solution
    lp2 = [x for x in run["lps"] if x["round"] == 2]
    if lp2:
        v2 = lp2[0]["vars"]
        kc2 = lp2[0]["consts"]["seaweed"]["kcals"]
        feed_round2 = [v2["stored_food_feed"][m] + v2["crops_food_feed"][m] + v2["methane_scp_feed"][m] + v2["cellulosic_sugar_feed"][m]
                       + v2["seaweed_feed"][m] * kc2 for m in range(n)]
    else:
        feed_round2 = [0.0] * n
    gr = inp.get("grass_ratio") or []
    ny = n // 12

    def gyear(m):
        return 1 if m < 8 else min(ny, 2 + (m - 8) // 12)

    sched = len(gr) >= ny and all(x == x for x in gr[:ny])
    for m in range(n):
        # (without recorded ratios the clause is trivially true: 1 * grass = grass0 * 1 only in month 0, so feed it the month itself)
        r1, ry, g0 = (gr[0], gr[gyear(m) - 1], h["grass_avail"][0]) if sched else (1.0, 1.0, h["grass_avail"][m])
        sl = [dict(**{"class": meat_class(sp["type"], sp["size"])}, head=num(sp["slaughter"][m], 1e6)) for sp in h["species"]]
        mp = [num(sp["population"][m]) for sp in h["species"] if sp["milk"]]
        ev.append(dict(ev="Month", m=m, sl=sl, milkPop=mp, meat=num(s["meat"][m]), milk=num(s["milk"][m], 1e-6),
                       feedCharged=num(feed_charged[m]), feedEaten=num(h["feed_used"][m]),
                       feedOffered=num(h["feed_avail"][m]), feedRound2=num(feed_round2[m]), grassEaten=num(h["grass_used"][m]),
                       grass=num(h["grass_avail"][m]), grass0=num(g0), ratio1=num(r1), ratioYear=num(ry)))
    ev.append(dict(ev="End"))
    return dict(hdr=dict(cc=run["job"]["cc"], preset=run["job"]["preset"], round=lp["round"], kind=lp["kind"], herd_tag=h["tag"],
                         species=[sp["type"] for sp in h["species"]]), ev=ev)


def run(pid, tier):
    out = C.Outcome(pid, tier)
    out.rule = ("one Trace_HerdSupply trace per optimisation round of every corpus run: monthly slaughter per species and milking "
                "herds of the herd simulation attributed to that round (by the compute_parameters call that built it) against the "
                "meat, milk and feed series in the round's time_consts; distinct = distinct (country, preset, round)")
    r = C.run_tlc("MC_HerdSupply", cfg="MC_HerdSupply.cfg", workers=C.NCPU, timeout=1200)
    out.add_tlc("MC_HerdSupply", r)
    if r.violated:
        out.violation("spec:%s" % r.violated, "MC_HerdSupply violates %s" % r.violated, r.out[-3000:])
    traces = []
    for run_ in corpus.runs(tier):
        if run_.get("recorder_error") or not run_.get("inputs"):
            continue
        for lp in run_.get("lps", []):
            t = round_trace(run_, lp)
            if t:
                traces.append(t)
    fails = tracecheck.validate("Trace_HerdSupply", "Trace_HerdSupply.cfg", traces, out)
    for (t, l, clause) in fails:
        h = t["hdr"]
        e = t["ev"][l - 1] if l <= len(t["ev"]) else {}
        out.violation("%s:round%d" % (clause, h["round"]), "%s %s round %d month %s (herd built in phase %s)" % (
            h["cc"], h["preset"], h["round"], e.get("m", "-"), h["herd_tag"]), dict(hdr=h, clause=clause, event_index=l))
    for t in traces:
        out.distinct.add((t["hdr"]["cc"], t["hdr"]["preset"], t["hdr"]["round"]))
    if traces:
        t = traces[len(traces) // 2]
        out.sample(dict(trace=dict(hdr=t["hdr"], begin=t["ev"][0], month_5=t["ev"][6])))
    out.assumptions = ["herds are attributed to rounds by the compute_parameters_{first,second,third}_round call active when they were built; "
                       "round 3 uses the round-1 herd when rounds 1-2 or round 2 were skipped",
                       "per-head yields are the kcals_per_head_meat_dict handed to the herd simulation; species class from species size / type",
                       "tolerance 1e-9 relative + 1e-6 absolute (billion kcal)"]
    return out.finish()
