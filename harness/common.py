"""Shared machinery: scratch copies of the repository, TLC runs, evidence, known findings.

Nothing here imports repository code; repository code only ever runs in worker
processes whose cwd is a scratch copy (the model resolves `repo_root` through git and writes
results/<title>_ykcals.csv there), never in /repo.
"""
import contextlib
import fcntl
import hashlib
import json
import os
import re
import shutil
import subprocess
import sys
import tempfile
import time

VERIF = os.path.dirname(os.path.dirname(os.path.abspath(__file__)))
REPO = os.environ.get("VERIF_REPO", "/repo")
SPEC = os.path.join(VERIF, "spec")
PY = os.environ.get("VERIF_PY", "/venv/bin/python")
NCPU = int(os.environ.get("VERIF_NCPU", str(os.cpu_count() or 4)))
GUARD = "ALLFED_VERIF"


def seed():
    try:
        return int(os.environ.get("VERIF_SEED", "0"))
    except ValueError:
        return 0


def shm_root():
    for d in (os.environ.get("XDG_RUNTIME_DIR"), "/dev/shm", tempfile.gettempdir()):
        if d and os.path.isdir(d) and os.access(d, os.W_OK):
            return d
    return tempfile.gettempdir()


_work = None


def workdir():
    """Per-process scratch directory, removed at exit."""
    global _work
    if _work is None:
        _work = tempfile.mkdtemp(prefix="verif.%d." % os.getpid(), dir=shm_root())
        import atexit

        atexit.register(lambda: shutil.rmtree(_work, ignore_errors=True))
    return _work


def tree_hash(repo=None):
    """sha256 of every file under src/, data/, scenarios/, scripts/ of the repository working tree."""
    repo = repo or REPO
    h = hashlib.sha256()
    for top in ("src", "data", "scenarios", "scripts", "plot_manuscript_figures.py"):
        p = os.path.join(repo, top)
        if os.path.isfile(p):
            files = [p]
        else:
            files = []
            for d, dn, fn in os.walk(p):
                dn[:] = sorted(x for x in dn if x != "__pycache__")
                for f in sorted(fn):
                    if f.endswith(".pyc"):
                        continue
                    files.append(os.path.join(d, f))
        for f in files:
            h.update(os.path.relpath(f, repo).encode())
            h.update(b"\0")
            try:
                with open(f, "rb") as fh:
                    h.update(hashlib.sha256(fh.read()).digest())
            except OSError:
                h.update(b"?")
    return h.hexdigest()


def scratch_repo(name="scratch"):
    """rsync the repository working tree into the work dir and `git init` it. Returns the path."""
    dst = os.path.join(workdir(), name)
    if os.path.isdir(dst):
        return dst
    os.makedirs(dst)
    subprocess.run(
        ["rsync", "-a", "--exclude", ".git", "--exclude", "__pycache__", "--exclude", "results/*",
         "--exclude", "*.egg-info", "--exclude", "docs", REPO.rstrip("/") + "/", dst + "/"],
        check=True,
    )
    os.makedirs(os.path.join(dst, "results"), exist_ok=True)
    os.makedirs(os.path.join(dst, "results", "large_reports"), exist_ok=True)
    subprocess.run(["git", "init", "-q"], cwd=dst, check=True)
    return dst


def worker_env(extra=None):
    env = dict(os.environ)
    env["PYTHONHASHSEED"] = "0"
    env["PYTHONDONTWRITEBYTECODE"] = "1"
    env[GUARD] = "1"
    env["MPLBACKEND"] = "Agg"
    env["PYTHONPATH"] = VERIF + os.pathsep + env.get("PYTHONPATH", "")
    for k in ("OMP_NUM_THREADS", "OPENBLAS_NUM_THREADS", "MKL_NUM_THREADS"):
        env[k] = "1"
    if extra:
        env.update(extra)
    return env


def run_worker(module, args, scratch, timeout=None, stdin=None, extra_env=None):
    """Run `python -m harness.<module> args` with cwd = scratch copy (so repo code imports from there)."""
    cmd = [PY, "-m", module] + [str(a) for a in args]
    return subprocess.run(cmd, cwd=scratch, env=worker_env(extra_env), input=stdin, text=True,
                          capture_output=True, timeout=timeout)


# ---------------------------------------------------------------------------------------- cache
def cache_root():
    # mutation self-tests point this at a directory inside their scratch copy, so caches of mutated trees never meet the real one
    return os.environ.get("VERIF_CACHE_DIR") or os.path.join(VERIF, ".cache")


def cache_dir(repo_hash, name):
    d = os.path.join(cache_root(), repo_hash[:24], name)
    os.makedirs(d, exist_ok=True)
    return d


@contextlib.contextmanager
def locked(path):
    os.makedirs(os.path.dirname(path), exist_ok=True)
    with open(path + ".lock", "w") as fh:
        fcntl.flock(fh, fcntl.LOCK_EX)
        try:
            yield
        finally:
            fcntl.flock(fh, fcntl.LOCK_UN)


def prune_cache(keep_hash):
    root = cache_root()
    if not os.path.isdir(root):
        return
    for d in os.listdir(root):
        if d != keep_hash[:24]:
            shutil.rmtree(os.path.join(root, d), ignore_errors=True)


# ------------------------------------------------------------------------------------------ TLC
class TLCResult:
    def __init__(self):
        self.ok = False
        self.states = 0
        self.distinct = 0
        self.transitions = 0
        self.violated = None  # name of violated invariant / property
        self.error = None  # machinery error text
        self.out = ""
        self.wall = 0.0
        self.coverage = {}  # action name -> count of states found

    def summary(self):
        return dict(ok=self.ok, states=self.distinct, generated=self.states, violated=self.violated,
                    error=self.error, wall_s=round(self.wall, 2))


_TLC_JAR = "/opt/veriftools/tla/tla2tools.jar:/opt/veriftools/tla/CommunityModules-deps.jar"


def run_tlc(module, cfg=None, workers=None, env=None, cwd=None, extra=(), timeout=3600, coverage=False,
            simulate=None, depth=None, dfs=False, heap="4g"):
    """Run TLC on spec/<module>.tla with spec/<cfg>. Returns TLCResult (never raises on a violation)."""
    cwd = cwd or SPEC
    meta = tempfile.mkdtemp(prefix="tlc.", dir=workdir())
    # (TLC leaves an empty directory in java.io.tmpdir per run: keep them in the run's own scratch, which is removed afterwards)
    jopts = ["-XX:+UseSerialGC" if str(workers) == "1" else "-XX:+UseParallelGC", "-Xmx" + heap, "-Xss256m", "-Djava.io.tmpdir=" + meta]
    if dfs:
        jopts.append("-Dtlc2.tool.queue.IStateQueue=StateDeque")
    cmd = ["java"] + jopts + ["-cp", _TLC_JAR, "tlc2.TLC", "-metadir", meta, "-noGenerateSpecTE",
                             "-workers", str(workers or "auto")]
    if cfg:
        cmd += ["-config", cfg]
    if coverage:
        cmd += ["-coverage", "1"]
    if simulate:
        cmd += ["-simulate", simulate]
    if depth:
        cmd += ["-depth", str(depth)]
    cmd += list(extra) + [module]
    e = dict(os.environ)
    if env:
        e.update({k: str(v) for k, v in env.items()})
    t0 = time.time()
    r = TLCResult()
    try:
        p = subprocess.run(cmd, cwd=cwd, env=e, capture_output=True, text=True, timeout=timeout)
        out = p.stdout + p.stderr
    except subprocess.TimeoutExpired as ex:
        r.error = "TLC timeout after %ss" % timeout
        r.out = (ex.stdout or b"").decode(errors="replace") if isinstance(ex.stdout, bytes) else (ex.stdout or "")
        shutil.rmtree(meta, ignore_errors=True)
        return r
    finally:
        pass
    shutil.rmtree(meta, ignore_errors=True)
    r.wall = time.time() - t0
    r.out = out
    m = re.search(r"(\d+) states generated, (\d+) distinct states found", out)
    if m:
        r.states = int(m.group(1))
        r.distinct = int(m.group(2))
        r.transitions = r.states
    m = re.search(r"Invariant (\S+) is violated", out)
    if m:
        r.violated = m.group(1)
    m = re.search(r"Action property (\S+) is violated|Temporal properties were violated", out)
    if m and not r.violated:
        r.violated = m.group(1) or "temporal"
    if "The postcondition has failed" in out or "Evaluating the postcondition" in out and "FALSE" in out:
        r.violated = r.violated or "POSTCONDITION"
    if re.search(r"Assumption .* is false", out):
        r.violated = r.violated or "ASSUME"
    if "Deadlock reached" in out:
        r.violated = r.violated or "deadlock"
    if "Model checking completed. No error has been found" in out or (
            simulate and p.returncode == 0 and "Error" not in out):
        r.ok = r.violated is None
    elif r.violated is None:
        # parse / semantic / evaluation error = machinery failure
        r.error = "TLC failed (rc=%s): %s" % (p.returncode, out[-1500:])
    if coverage:
        for mm in re.finditer(r"<(\w+) line \d+, col \d+ to line \d+, col \d+ of module (\w+)>: (\d+):(\d+)", out):
            r.coverage[mm.group(1)] = r.coverage.get(mm.group(1), 0) + int(mm.group(4))
    return r


def sany(module, cwd=None):
    p = subprocess.run(["java", "-cp", _TLC_JAR, "tla2sany.SANY", module], cwd=cwd or SPEC,
                       capture_output=True, text=True)
    ok = p.returncode == 0 and "Semantic errors" not in p.stdout and "***Parse Error***" not in p.stdout \
        and "Fatal errors" not in p.stdout and "Could not find" not in p.stdout
    return ok, p.stdout + p.stderr


def printed_values(out):
    """TLA+ values printed by PrintT on their own lines (bracket-matched, multi-line safe)."""
    vals = []
    buf = None
    depth = 0
    for line in out.splitlines():
        s = line.strip()
        if buf is None:
            if s.startswith("<<") or s.startswith("["):
                buf = ""
                depth = 0
            else:
                continue
        buf += s
        depth += s.count("<<") + s.count("[") - s.count(">>") - s.count("]")
        if depth <= 0:
            vals.append(buf)
            buf = None
    return vals


# ------------------------------------------------------------------------------- results / evidence
class Outcome:
    """Collects what a check did; turns it into exit code, VIOLATION / KNOWN-FINDING lines and evidence."""

    def __init__(self, pid, tier, level="model_checking"):
        self.pid = pid
        self.tier = tier
        self.level = level
        self.t0 = time.time()
        self.states = 0
        self.transitions = 0
        self.traces = 0
        self.evaluations = 0
        self.distinct = set()
        self.distinct_n = 0
        self.samples = []
        self.extra = {}
        self.assumptions = []
        self.violations = []  # dict(key, what, replay)
        self.machinery = []
        self.rule = ""
        self.tlc_runs = []

    def add_tlc(self, name, r, expect_ok=True):
        self.states += r.distinct
        self.transitions += r.states
        self.tlc_runs.append(dict(name=name, **r.summary()))
        if r.error:
            err = r.error
            m = re.search(r"(Unknown operator[^\n]*|\*\*\* Errors[^\n]*\n[^\n]*\n[^\n]*|Error: [^\n]*)", err)
            self.machinery.append("TLC %s: %s" % (name, (m.group(1) if m else err)[-400:]))

    def violation(self, key, what, replay_obj=None):
        self.violations.append(dict(key=key, what=what, replay=replay_obj))

    def sample(self, s):
        if len(self.samples) < 6:
            self.samples.append(s)

    def samples_has(self, key):
        return any(isinstance(x, dict) and key in x for x in self.samples)

    def finish(self):
        kf = load_known_findings().get(self.pid, [])
        known_keys = {k["key"]: k for k in kf if k.get("status", "open") == "open"}
        printed_known = set()
        new = []
        for v in self.violations:
            k = match_known(v["key"], known_keys)
            if k is not None:
                printed_known.add(k)
            else:
                new.append(v)
        for k in sorted(printed_known):
            print("KNOWN-FINDING: property=%s %s :: %s" % (self.pid, k, known_keys[k]["what"]))
        rc = 0
        evdir = os.environ.get("VERIF_EVIDENCE_DIR") or os.path.join(VERIF, "evidence")
        os.makedirs(evdir, exist_ok=True)
        rdir = os.path.join(evdir, "replay")
        seen = set()
        for i, v in enumerate(new):
            if v["key"] in seen:
                continue
            seen.add(v["key"])
            os.makedirs(rdir, exist_ok=True)
            path = os.path.join(rdir, "%s_%d.json" % (self.pid, len(seen)))
            with open(path, "w") as fh:
                json.dump(dict(property=self.pid, key=v["key"], what=v["what"], replay=v["replay"]), fh,
                          indent=1, default=str)
            if len(seen) <= 20:
                print("VIOLATION property=%s replay=%s  # %s: %s" % (self.pid, path, v["key"], v["what"]))
            rc = 1
        if self.machinery:
            for m in sorted(set(self.machinery))[:5]:
                print("MACHINERY-FAILURE property=%s %s" % (self.pid, m[-600:]), file=sys.stderr)
            if rc == 0:
                rc = 2
        cov = dict(
            states=max(self.states, 0), transitions=max(self.transitions, 0),
            traces_validated_against_impl=self.traces,
            evaluations=self.evaluations,
            distinct_nontrivial=self.distinct_n or len(self.distinct),
            rule=self.rule, samples=self.samples or ["(none)"],
            tlc_runs=self.tlc_runs,
            known_findings_seen=sorted(printed_known),
            explanation=self.rule,
        )
        cov.update(self.extra)
        if cov["states"] == 0 or cov["transitions"] == 0:
            # no behaviour spec was explored (constant-level evaluation): fall back to the generic counts
            del cov["states"], cov["transitions"]
        ev = dict(property_id=self.pid, tier=self.tier, seed=seed(), level=self.level, coverage=cov,
                  assumptions=self.assumptions, wall_s=round(time.time() - self.t0, 2),
                  violations=len(seen), repo_tree=tree_hash()[:16])
        with open(os.path.join(evdir, "%s.json" % self.pid), "w") as fh:
            json.dump(ev, fh, indent=1, default=str)
        return rc


def load_known_findings():
    p = os.path.join(VERIF, "known_findings.json")
    if not os.path.exists(p):
        return {}
    with open(p) as fh:
        d = json.load(fh)
    out = {}
    for e in d.get("findings", []):
        out.setdefault(e["property"], []).append(e)
    return out


def match_known(key, known_keys):
    """A violation key matches a finding key when equal or when the finding key ends in '*' and prefixes it."""
    if key in known_keys:
        return key
    for k in known_keys:
        if k.endswith("*") and key.startswith(k[:-1]):
            return k
    return None
