"""Spec -> code for C10: the monomial table exported by Units.tla is evaluated with exact fractions at seeded
parameter settings and compared with the real get_conversion / in_units. cwd = scratch copy.
argv: table.json report.json n_settings seed"""
import itertools
import json
import os
import random
import sys
from fractions import Fraction

import numpy as np

sys.path.insert(0, os.getcwd())
SUF = ["", " each month", " per month"]


def ev(m, par):
    v = Fraction(m["c"][0], m["c"][1]) * Fraction(10) ** m["e10"]
    for k, name in (("pop", "POP"), ("kd", "KD"), ("fd", "FD"), ("pd", "PD")):
        v *= Fraction(par[name]) ** m[k]
    return v


def rel(a, b):
    a = float(a)
    b = float(b)
    return abs(a - b) <= 1e-11 * max(abs(a), abs(b)) + 1e-300


def main():
    from src.food_system.food import Food

    tab = json.load(open(sys.argv[1]))
    n_set, seed = int(sys.argv[3]), int(sys.argv[4])
    rng = random.Random(seed)
    rep = dict(settings=0, pair_checks=0, in_units_checks=0, anchor_checks=0, mismatches=[], n_mismatch=0)

    def bad(key, d):
        rep["n_mismatch"] += 1
        if sum(1 for m in rep["mismatches"] if m["key"] == key) < 3:
            rep["mismatches"].append(dict(key=key, **d))

    # (the second differs from the first in the fat and protein needs only: same calories, same population)
    settings = [dict(POP=7.8e9, KD=2100, FD=47, PD=51), dict(POP=7.8e9, KD=2100, FD=61.7, PD=59.5), dict(POP=1e6 / 63.0 * 1e3, KD=2100, FD=47, PD=51),
                dict(POP=1234, KD=1, FD=1, PD=1),
                # populations that are not whole numbers (a table cell after a unit change: Senegal's is 16743929.999999998)
                dict(POP=1500.5, KD=2100, FD=47, PD=51), dict(POP=16743929.999999998, KD=2100, FD=47, PD=51)]
    while len(settings) < n_set:
        settings.append(dict(POP=10 ** rng.uniform(2, 10.3), KD=rng.uniform(800, 4000), FD=rng.uniform(5, 150),
                             PD=rng.uniform(5, 150)))
    names = {n: [b + s for b in tab["table"][n] for s in SUF] for n in ("kcals", "fat", "protein")}
    base_of = lambda u: u.replace(" each month", "").replace(" per month", "")  # noqa
    suf_of = lambda u: " each month" if u.endswith(" each month") else " per month" if u.endswith(" per month") else ""  # noqa
    for si, par in enumerate(settings):
        rep["settings"] += 1
        Food.conversions.set_nutrition_requirements(par["KD"], par["FD"], par["PD"], bool(si % 2), bool(si % 3 == 0), par["POP"])
        fac = {n: {b: ev(m, par) for b, m in tab["table"][n].items()} for n in names}
        f = Food(1, 1, 1)
        # all ordered pairs within each nutrient
        for idx, n in enumerate(("kcals", "fat", "protein")):
            others = [names["kcals"][0], names["fat"][0], names["protein"][0]]
            for u, v in itertools.product(names[n], names[n]):
                fu, tv = list(others), list(others)
                fu[idx], tv[idx] = u, v
                try:
                    got = f.get_conversion(fu, tv[0], tv[1], tv[2])[idx]
                except BaseException as ex:  # noqa
                    bad("get_conversion:exception:%s" % n, dict(frm=u, to=v, exc=repr(ex)[:100]))
                    continue
                want = fac[n][base_of(v)] / fac[n][base_of(u)]
                rep["pair_checks"] += 1
                if not rel(got, want):
                    bad("get_conversion:%s:%s->%s" % (n, base_of(u), base_of(v)), dict(frm=u, to=v, got=got, want=float(want), par=par))
        # in_units on scalars and series: sampled source / target triples, every suffix
        kb, fb, pb = [list(tab["table"][n]) for n in ("kcals", "fat", "protein")]
        combos = list(itertools.product(kb, fb, pb))
        rng2 = random.Random(seed * 1000 + si)
        srcs = rng2.sample(combos, 12)
        tgts = rng2.sample(combos, 12)
        if si == 0:
            srcs, tgts = combos, combos[::7]
        ncase = [0]
        nser = [0]
        for (sk, sf, sp), (tk, tf, tp) in itertools.product(srcs, tgts):
            for suf in SUF:
                series = suf == " each month"
                vals = [rng2.uniform(0.1, 50), rng2.uniform(0.1, 50), rng2.uniform(0.1, 50)]
                ncase[0] += 1
                if ncase[0] % 4 == 0:
                    # whole numbers held as integers (an int array, or a plain list of ints): same quantity, same conversion
                    vals = [rng2.randint(1, 4000), rng2.randint(1, 4000), rng2.randint(1, 4000)]
                if series:
                    cols = [[vals[0], 2 * vals[0]], [vals[1], 3 * vals[1]], [vals[2], vals[2]]]
                    if ncase[0] % 5 == 0:
                        cols = [c_[:1] for c_ in cols]     # (a series may be one month long)
                    if ncase[0] % 8 == 0:
                        src = Food(cols[0], cols[1], cols[2], sk + suf, sf + suf, sp + suf)
                    else:
                        src = Food(np.array(cols[0]), np.array(cols[1]), np.array(cols[2]), sk + suf, sf + suf, sp + suf)
                else:
                    src = Food(vals[0], vals[1], vals[2], sk + suf, sf + suf, sp + suf)
                before = (np.array(src.kcals).copy(), list(src.units))
                try:
                    r = src.in_units(tk, tf, tp)
                except BaseException as ex:  # noqa
                    bad("in_units:exception", dict(src=[sk, sf, sp, suf], tgt=[tk, tf, tp], exc=repr(ex)[:100]))
                    continue
                rep["in_units_checks"] += 1
                want_lab = [tk + suf, tf + suf, tp + suf]
                if [r.kcals_units, r.fat_units, r.protein_units] != want_lab or list(r.units) != want_lab:
                    bad("in_units:FormPreserved:%s" % (suf.strip() or "total"), dict(src=[sk, sf, sp, suf], tgt=[tk, tf, tp],
                                                                                   got=[r.kcals_units, r.fat_units, r.protein_units], units=list(r.units)))
                if isinstance(r.kcals, np.ndarray) != series:
                    bad("in_units:ShapePreserved", dict(src=[sk, sf, sp, suf], tgt=[tk, tf, tp]))
                    continue
                wk = fac["kcals"][tk] / fac["kcals"][sk]
                wf = fac["fat"][tf] / fac["fat"][sf]
                wp = fac["protein"][tp] / fac["protein"][sp]
                g = [np.atleast_1d(r.kcals)[0], np.atleast_1d(r.fat)[0], np.atleast_1d(r.protein)[0]]
                for nm, gv, w, v0 in zip(("kcals", "fat", "protein"), g, (wk, wf, wp), vals):
                    if not rel(gv, Fraction(v0) * w):
                        bad("in_units:value:%s" % nm, dict(src=[sk, sf, sp, suf], tgt=[tk, tf, tp], got=float(gv), want=float(Fraction(v0) * w), par=par))
                if not (np.array_equal(before[0], np.array(src.kcals)) and before[1] == list(src.units)):
                    bad("in_units:OperandUnchanged", dict(src=[sk, sf, sp, suf]))
                # round trip through the code itself
                try:
                    back = r.in_units(sk, sf, sp)
                    if not (rel(np.atleast_1d(back.kcals)[0], vals[0]) and rel(np.atleast_1d(back.fat)[0], vals[1])
                            and rel(np.atleast_1d(back.protein)[0], vals[2])):
                        bad("in_units:RoundTrip", dict(src=[sk, sf, sp, suf], tgt=[tk, tf, tp], par=par))
                except BaseException as ex:  # noqa
                    bad("in_units:exception", dict(src=[tk, tf, tp, suf], tgt=[sk, sf, sp], exc=repr(ex)[:100]))
                # single values derived from a series keep their own form through a conversion: a total stays a total (sum, minimum,
                # maximum over the months), one month stays "per month"
                nser[0] += 1 if series else 0
                if series and nser[0] % 3 == 0 and len(np.atleast_1d(src.kcals)) > 1:
                    k0, f0, p0 = [np.asarray(x, dtype=float) for x in (src.kcals, src.fat, src.protein)]
                    for dn, mk_d, dsuf, nums in (("sum", lambda: src.get_nutrients_sum(), "", (k0.sum(), f0.sum(), p0.sum())),
                                                 ("month", lambda: src.get_month(1), " per month", (k0[1], f0[1], p0[1])),
                                                 ("min", lambda: src.get_min_all_months(), "", (k0.min(), f0.min(), p0.min())),
                                                 ("max", lambda: src.get_max_all_months(), "", (k0.max(), f0.max(), p0.max()))):
                        try:
                            dr = mk_d().in_units(tk, tf, tp)
                        except BaseException as ex:  # noqa
                            bad("in_units:exception:after-%s" % dn, dict(src=[sk, sf, sp], tgt=[tk, tf, tp], exc=repr(ex)[:100]))
                            continue
                        rep["in_units_checks"] += 1
                        wl = [tk + dsuf, tf + dsuf, tp + dsuf]
                        if [dr.kcals_units, dr.fat_units, dr.protein_units] != wl or list(dr.units) != wl or isinstance(dr.kcals, np.ndarray):
                            bad("in_units:FormPreserved:after-%s" % dn, dict(src=[sk, sf, sp], tgt=[tk, tf, tp],
                                                                              got=[dr.kcals_units, dr.fat_units, dr.protein_units], units=list(dr.units)))
                        elif not (rel(dr.kcals, Fraction(float(nums[0])) * wk) and rel(dr.fat, Fraction(float(nums[1])) * wf)
                                  and rel(dr.protein, Fraction(float(nums[2])) * wp)):
                            bad("in_units:value:after-%s" % dn, dict(src=[sk, sf, sp], tgt=[tk, tf, tp]))
        # anchors on the code
        req = Food(float(ev(tab["req"]["kcals"], par)), float(ev(tab["req"]["fat"], par)), float(ev(tab["req"]["protein"], par)))
        for suf in ("", " per month"):
            q = Food(req.kcals, req.fat, req.protein, "billion kcals" + suf, "thousand tons" + suf, "thousand tons" + suf)
            pf, bf, kg, ke = q.in_units_percent_fed(), q.in_units_billions_fed(), q.in_units_kcals_grams_grams_per_person(), q.in_units_kcals_equivalent()
            checks = [("percent", pf.kcals, 100), ("percent", pf.fat, 100), ("percent", pf.protein, 100),
                      ("billions", bf.kcals, par["POP"] / 1e9), ("billions", bf.fat, par["POP"] / 1e9), ("billions", bf.protein, par["POP"] / 1e9),
                      ("per_person", kg.kcals, par["KD"]), ("per_person", kg.fat, par["FD"]), ("per_person", kg.protein, par["PD"]),
                      ("kcals_equiv", ke.kcals, par["KD"]), ("kcals_equiv", ke.fat, par["KD"]), ("kcals_equiv", ke.protein, par["KD"])]
            for nm, gv, w in checks:
                rep["anchor_checks"] += 1
                if not rel(gv, w):
                    bad("anchor:%s" % nm, dict(got=float(gv), want=float(w), par=par, suf=suf))
            # ... and three times the requirement is three times the population (nothing is capped on the way)
            q3 = Food(3 * req.kcals, 3 * req.fat, 3 * req.protein, "billion kcals" + suf, "thousand tons" + suf, "thousand tons" + suf)
            b3, p3 = q3.in_units_billions_fed(), q3.in_units_percent_fed()
            for nm, gv, w in (("billions", b3.kcals, 3 * par["POP"] / 1e9), ("billions", b3.fat, 3 * par["POP"] / 1e9), ("billions", b3.protein, 3 * par["POP"] / 1e9),
                              ("percent", p3.kcals, 300), ("percent", p3.fat, 300), ("percent", p3.protein, 300)):
                rep["anchor_checks"] += 1
                if not rel(gv, w):
                    bad("anchor:%s:above-need" % nm, dict(got=float(gv), want=float(w), par=par, suf=suf))
            bk = pf.in_units_bil_kcals_thou_tons_thou_tons_per_month()
            if not (rel(bk.kcals, req.kcals) and rel(bk.fat, req.fat) and rel(bk.protein, req.protein)):
                bad("anchor:back_to_base", dict(par=par))
        # ... and on the conversions the result extraction does by hand (grazing milk: the population's exact requirement is the
        # population, in billions of people fed, in all three nutrients - and what the conversion path gives for the same amounts)
        try:
            from src.optimizer.extract_results import Extractor
            cv = Food.conversions
            ex_ = Extractor(dict(NMONTHS=2, KCALS_MONTHLY=cv.kcals_monthly, FAT_MONTHLY=cv.fat_monthly, PROTEIN_MONTHLY=cv.protein_monthly,
                                 BILLION_KCALS_NEEDED=cv.billion_kcals_needed, THOU_TONS_FAT_NEEDED=cv.thou_tons_fat_needed,
                                 THOU_TONS_PROTEIN_NEEDED=cv.thou_tons_protein_needed, MEAT_FRACTION_FAT=0.1, MEAT_FRACTION_PROTEIN=0.2))
            from types import SimpleNamespace as NS_
            ex_.constants["MEAT_FRACTION_FAT"], ex_.constants["MEAT_FRACTION_PROTEIN"] = req.fat / req.kcals, req.protein / req.kcals
            solved = [NS_(varValue=req.kcals), NS_(varValue=req.kcals)]   # (what a solved LP variable looks like to the extractor)
            ex_.extract_meat_milk_results(solved, [req.kcals] * 2, [req.fat] * 2, [req.protein] * 2)
            # (a food whose LP variable is not in kcals, like seaweed: twice the amount at half the energy content)
            solved2 = [NS_(varValue=2.0 * req.kcals), NS_(varValue=2.0 * req.kcals)]
            gen = ex_.extract_generic_results(solved2, 0.5, 0.5 * req.fat / req.kcals, 0.5 * req.protein / req.kcals, ex_.constants)
            for nm, gv in (("kcals", ex_.milk.kcals), ("fat", ex_.milk.fat), ("protein", ex_.milk.protein),
                           ("meat:kcals", ex_.meat.kcals), ("meat:fat", ex_.meat.fat), ("meat:protein", ex_.meat.protein),
                           ("generic:kcals", gen.kcals), ("generic:fat", gen.fat), ("generic:protein", gen.protein)):
                rep["anchor_checks"] += 1
                if not all(rel(g_, par["POP"] / 1e9) for g_ in np.asarray(gv, dtype=float)):
                    bad("anchor:extracted:%s" % nm, dict(got=[float(g_) for g_ in np.asarray(gv, dtype=float)], want=par["POP"] / 1e9, par=par))
            # outdoor crops (their fat and protein are LP variables of their own): a nutrient that is counted converts to the population, one
            # that is not counted is reported as nothing - under each of the four settings of the two switches
            for inc_f_ in (False, True):
                for inc_p_ in (False, True):
                    ex_.constants["inputs"] = dict(INCLUDE_FAT=inc_f_, INCLUDE_PROTEIN=inc_p_)
                    fv_ = [NS_(varValue=req.fat), NS_(varValue=req.fat)]
                    pv_ = [NS_(varValue=req.protein), NS_(varValue=req.protein)]
                    oc_ = ex_.create_food_object_from_fat_protein_variables(solved, fv_, pv_)
                    for nm, gv, w_ in (("kcals", oc_.kcals, par["POP"] / 1e9), ("fat", oc_.fat, par["POP"] / 1e9 if inc_f_ else 0.0),
                                      ("protein", oc_.protein, par["POP"] / 1e9 if inc_p_ else 0.0)):
                        rep["anchor_checks"] += 1
                        if not all((rel(g_, w_) if w_ else float(g_) == 0.0) for g_ in np.asarray(gv, dtype=float)):
                            bad("anchor:extracted:crops:%s" % nm, dict(got=[float(g_) for g_ in np.asarray(gv, dtype=float)], want=w_, fat=inc_f_, protein=inc_p_, par=par))
            if list(ex_.milk.units) != ["billion people fed each month"] * 3:
                bad("anchor:extracted_milk:units", dict(units=list(ex_.milk.units)))
        except BaseException as ex:  # noqa
            bad("anchor:extracted_milk:exception", dict(exc=repr(ex)[:160], par=par))
        # a conversion is a function of the quantity as it is now: converting, changing the quantity (or the result), and converting again
        try:
            h_ = Food(np.array([req.kcals, 2 * req.kcals]), np.array([req.fat, 2 * req.fat]), np.array([req.protein, 2 * req.protein]),
                      "billion kcals each month", "thousand tons each month", "thousand tons each month").in_units_percent_fed()
            first = h_.in_units_bil_kcals_thou_tons_thou_tons_per_month()
            first.kcals[0] = -7.0                      # (the caller edits what it was given)
            h_.kcals = h_.kcals * 3.0                  # (... and the quantity changes)
            second = h_.in_units_bil_kcals_thou_tons_thou_tons_per_month()
            rep["in_units_checks"] += 1
            if not (rel(second.kcals[0], 3 * req.kcals) and rel(second.kcals[1], 6 * req.kcals) and rel(second.fat[1], 2 * req.fat)):
                bad("wrapper:history:in_units_bil_kcals_thou_tons_thou_tons_per_month", dict(par=par, got=[float(x) for x in second.kcals]))
        except BaseException as ex:  # noqa
            bad("wrapper:exception:history", dict(exc=repr(ex)[:120]))
        # the named wrappers are the generic conversion to their three target units - also for a series of small amounts
        tiny = Food(np.array([2e-3, 3.3e-7, 41.0]), np.array([1e-4, 7.7e-8, 3.0]), np.array([5e-5, 1.1e-8, 2.0]),
                    "billion kcals each month", "thousand tons each month", "thousand tons each month")
        for wname, tgt in (("in_units_percent_fed", ("percent people fed",) * 3), ("in_units_billions_fed", ("billion people fed",) * 3),
                           ("in_units_kcals_grams_grams_per_person", ("kcals per person per day", "grams per person per day", "grams per person per day")),
                           ("in_units_kcals_equivalent", ("kcals per person per day", "effective kcals per person per day", "effective kcals per person per day")),
                           ("in_units_bil_kcals_thou_tons_thou_tons_per_month", ("billion kcals", "thousand tons", "thousand tons"))):
            try:
                a, b = getattr(tiny, wname)(), tiny.in_units(*tgt)
                rep["in_units_checks"] += 1
                same_nums = all(np.all(np.abs(np.asarray(x, dtype=float) - np.asarray(y, dtype=float)) <= 1e-12 * np.abs(np.asarray(y, dtype=float)))
                                for x, y in ((a.kcals, b.kcals), (a.fat, b.fat), (a.protein, b.protein)))
                if not same_nums or list(a.units) != list(b.units):
                    bad("wrapper:%s" % wname, dict(par=par))
                # ... and a wrapper of a wrapper's result round-trips
                back = a.in_units_bil_kcals_thou_tons_thou_tons_per_month()
                if not all(np.all(np.abs(np.asarray(x, dtype=float) - np.asarray(y, dtype=float)) <= 1e-9 * np.abs(np.asarray(y, dtype=float)))
                           for x, y in ((back.kcals, tiny.kcals), (back.fat, tiny.fat), (back.protein, tiny.protein))):
                    bad("wrapper:RoundTrip:%s" % wname, dict(par=par))
            except BaseException as ex:  # noqa
                bad("wrapper:exception:%s" % wname, dict(exc=repr(ex)[:120]))
    json.dump(rep, open(sys.argv[2], "w"))


if __name__ == "__main__":
    main()
