"""C12: re-solves the real Optimizer on perturbed inputs. cwd = scratch copy. argv: jobs.json out.json
A job is either {"kind": "small", "inst": {...}} or {"kind": "real", "cc":..., "preset":..., "options": {...}, "seed": k}."""
import contextlib
import copy
import io
import json
import os
import random
import sys

import numpy as np

sys.path.insert(0, os.getcwd())


def solve(c, t):
    from src.optimizer.optimizer import Optimizer

    with contextlib.redirect_stdout(io.StringIO()):
        o = Optimizer(c, t)
        model, v, mc, z = o.optimize_to_humans(c, t)
    return float(z)


def small_pairs(inst):
    from harness.opt_solve import mk

    pairs = []

    def z_of(i):
        try:
            c, t = mk(i)
            return solve(c, t)
        except BaseException:  # infeasible perturbation
            return None

    z0 = z_of(inst)
    if z0 is None:
        return pairs
    for kind, what, j in perturbations(inst):
        pairs.append(dict(kind=kind, what=what, z0=z0, z1=z_of(j)))
    return pairs


def perturbations(inst):
    """(kind, what, perturbed instance): the family both the real Optimizer (here) and Optimum.tla (MC_OptimumLaws) are asked about"""
    out = []
    n = inst["n"]
    for key in ("crops", "meat", "scp"):
        for m in range(n):
            j = copy.deepcopy(inst)
            j[key][m] += 6
            out.append(("more_supply", "%s[%d]+6" % (key, m), j))
    j = copy.deepcopy(inst)
    j["sf"] += 6
    out.append(("more_supply", "stored_food+6", j))
    if inst["waste"] > 0:
        j = copy.deepcopy(inst)
        j["waste"] = inst["waste"] - 10
        out.append(("less_waste", "waste-10", j))
        j = copy.deepcopy(inst)
        j["waste"] = 0
        out.append(("less_waste", "waste-50", j))
    for m in range(n):
        j = copy.deepcopy(inst)
        j["feed"][m] += 3
        out.append(("more_charge", "feed[%d]+3" % m, j))
    for k in (2.0, 0.5):
        j = copy.deepcopy(inst)
        j["need"] = inst["need"] * k
        j["sf"] = inst["sf"] * k
        for key in ("crops", "meat", "scp", "feed"):
            j[key] = [x * k for x in inst[key]]
        out.append(("scale", "x%g" % k, j))
    return out


def real_inputs(job):
    import pandas as pd
    from src.optimizer.parameters import Parameters
    from src.scenarios.run_scenario import ScenarioRunner

    sr = ScenarioRunner()
    opts = dict(job["options"])
    with contextlib.redirect_stdout(io.StringIO()):
        if job["cc"] == "WOR":
            c, t, loader = sr.set_depending_on_option(opts)
        else:
            tab = pd.read_csv("data/no_food_trade/computer_readable_combined.csv")
            # the row as the by-country loop hands it on (iterrows: plain Python numbers; a numpy population would turn the
            # intake-cap comparison `number >= LP expression` into numpy.bool_ and the constraint would be lost)
            row = [r for _, r in tab.iterrows() if r["iso3"] == job["cc"]][0]
            c, t, loader = sr.set_depending_on_option(opts, country_data=row)
        p = Parameters()
        out = p.compute_parameters_first_round(c, t, loader)
    return out[0], out[1]


def scaled(c, t, k):
    """population and every supply multiplied by k"""
    from src.food_system.food import Food

    c2, t2 = copy.deepcopy(c), copy.deepcopy(t)
    c2["POP"] = c["POP"] * k
    c2["BILLION_KCALS_NEEDED"] = c["BILLION_KCALS_NEEDED"] * k
    c2["stored_food"].initial_available = c["stored_food"].initial_available * k
    c2["meat_summed_consumption"] = c["meat_summed_consumption"] * k
    c2["INITIAL_SEAWEED"] = c["INITIAL_SEAWEED"] * k
    c2["INITIAL_BUILT_SEAWEED_AREA"] = c["INITIAL_BUILT_SEAWEED_AREA"] * k
    t2["built_area"] = np.array(t["built_area"]) * k
    for key in ("methane_scp", "cellulosic_sugar", "feed", "biofuel"):
        t2[key] = t[key] * k
    for key in ("each_month_meat_slaughtered", "greenhouse_crops"):
        # (the copy of a series that was read month by month in an earlier solve gets new numbers: what it returns for a month is
        # what it holds now)
        t2[key].kcals = np.asarray(t2[key].kcals, dtype=float) * k
        t2[key].fat = np.asarray(t2[key].fat, dtype=float) * k
        t2[key].protein = np.asarray(t2[key].protein, dtype=float) * k
    t2["outdoor_crops"].production = t["outdoor_crops"].production * k
    t2["fish"].to_humans = t["fish"].to_humans * k
    t2["milk_kcals"] = np.array(t["milk_kcals"]) * k
    t2["max_consumed_culled_kcals_each_month"] = np.array(t["max_consumed_culled_kcals_each_month"]) * k
    return c2, t2


def real_pairs(job):
    from src.food_system.food import Food

    rng = random.Random(job["seed"])
    c, t = real_inputs(job)
    pairs = []

    def z_of(c2, t2, pop_in_force=None):
        # the process-wide unit-conversion settings in force while solving: those of the instance itself, or (pop_in_force)
        # those some other run left behind -- the optimum must be a function of (consts, time_consts) alone
        Food.conversions.set_nutrition_requirements(c2["KCALS_DAILY"], c2["FAT_DAILY"], c2["PROTEIN_DAILY"], False, False,
                                                    c2["POP"] if pop_in_force is None else pop_in_force)
        try:
            return solve(c2, t2)
        except BaseException:
            return None

    z0 = z_of(copy.deepcopy(c), copy.deepcopy(t))
    if z0 is None:
        raise RuntimeError("the unperturbed inputs of %s %s could not be solved" % (job["cc"], job.get("preset")))
    N = c["NMONTHS"]
    need = c["BILLION_KCALS_NEEDED"]
    months = sorted(rng.sample(range(N), 3))
    bump = 0.5 * need

    def with_series(key, m, sub=None):
        c2, t2 = copy.deepcopy(c), copy.deepcopy(t)
        if key == "outdoor_crops":
            t2[key].production.kcals[m] += bump
        elif key == "fish":
            t2[key].to_humans.kcals[m] += bump
        elif key == "milk_kcals":
            t2[key][m] += bump
        elif key == "each_month_meat_slaughtered":
            t2[key].kcals[m] += bump
            t2["max_consumed_culled_kcals_each_month"] = np.cumsum(t2[key].kcals)
            c2["meat_summed_consumption"] = float(np.sum(t2[key].kcals))
        else:
            t2[key].kcals[m] += bump
        return c2, t2

    keys = ["outdoor_crops", "fish", "milk_kcals", "greenhouse_crops", "each_month_meat_slaughtered"]
    if c["ADD_METHANE_SCP"]:
        keys.append("methane_scp")
    if c["ADD_CELLULOSIC_SUGAR"]:
        keys.append("cellulosic_sugar")
    for key in keys:
        for m in months:
            c2, t2 = with_series(key, m)
            pairs.append(dict(kind="more_supply", what="%s[%d]+0.5 need" % (key, m), z0=z0, z1=z_of(c2, t2)))
    c2, t2 = copy.deepcopy(c), copy.deepcopy(t)
    c2["stored_food"].initial_available = c["stored_food"].initial_available + Food(bump, 0, 0)
    if c["ADD_STORED_FOOD"]:
        pairs.append(dict(kind="more_supply", what="stored_food+0.5 need", z0=z0, z1=z_of(c2, t2)))
    wkeys = ["STORED_FOOD_WASTE_RETAIL", "CROP_WASTE_RETAIL", "MEAT_WASTE_RETAIL"]
    # (the three resilient foods spell their key differently)
    wkeys += [k for k, on in (("SCP_RETAIL_WASTE", c["ADD_METHANE_SCP"]), ("CELL_SUGAR_RETAIL_WASTE", c["ADD_CELLULOSIC_SUGAR"]),
                              ("SEAWEED_WASTE_RETAIL", c["ADD_SEAWEED"])) if on]
    for wk in wkeys:
        if c[wk] >= 2:
            c2, t2 = copy.deepcopy(c), copy.deepcopy(t)
            c2[wk] = c[wk] - 2
            pairs.append(dict(kind="less_waste", what="%s-2" % wk, z0=z0, z1=z_of(c2, t2)))
            c2, t2 = copy.deepcopy(c), copy.deepcopy(t)
            c2[wk] = c[wk] / 2.0
            pairs.append(dict(kind="less_waste", what="%s halved" % wk, z0=z0, z1=z_of(c2, t2)))
        if c[wk] > 0.5:
            # down to half a percent (waste is a percentage whatever its size)
            c2, t2 = copy.deepcopy(c), copy.deepcopy(t)
            c2[wk] = 0.5
            pairs.append(dict(kind="less_waste", what="%s down to 0.5" % wk, z0=z0, z1=z_of(c2, t2)))
    if c["ADD_STORED_FOOD"] or c["ADD_OUTDOOR_GROWING"]:
        for m in months[:2]:
            c2, t2 = copy.deepcopy(c), copy.deepcopy(t)
            t2["feed"].kcals[m] += 0.05 * need
            pairs.append(dict(kind="more_charge", what="feed[%d]+0.05 need" % m, z0=z0, z1=z_of(c2, t2)))
            c2, t2 = copy.deepcopy(c), copy.deepcopy(t)
            t2["biofuel"].kcals[m] += 0.05 * need
            pairs.append(dict(kind="more_charge", what="biofuel[%d]+0.05 need" % m, z0=z0, z1=z_of(c2, t2)))
    # a growing charge in one month, each step against the one before (up to a charge nothing could meet, which must be refused)
    zprev, prev = z0, "no extra charge"
    for mult in (0.05, 1.0, 20.0, 400.0):
        for key in ("feed", "biofuel"):
            c2, t2 = copy.deepcopy(c), copy.deepcopy(t)
            t2[key].kcals[0] += mult * need
            z1 = z_of(c2, t2)
            if key == "feed":
                pairs.append(dict(kind="more_charge", what="feed[0]+%g need (after %s)" % (mult, prev), z0=zprev, z1=z1))
                if z1 is None:
                    break
                zprev, prev = z1, "+%g need" % mult
            else:
                pairs.append(dict(kind="more_charge", what="biofuel[0]+%g need" % mult, z0=z0, z1=z1))
        else:
            continue
        break
    # both charges present in every month (as in a final round), then one of them raised over a window of months
    cb, tb = copy.deepcopy(c), copy.deepcopy(t)
    tb["feed"].kcals = np.asarray(tb["feed"].kcals, dtype=float) + 0.1 * need
    tb["biofuel"].kcals = np.asarray(tb["biofuel"].kcals, dtype=float) + 0.1 * need
    zb = z_of(cb, tb)
    if zb is not None:
        for key in ("feed", "biofuel"):
            for a, b in ((0, 12), (36, N)):
                c2, t2 = copy.deepcopy(cb), copy.deepcopy(tb)
                t2[key].kcals[a:b] += 0.03 * need
                pairs.append(dict(kind="more_charge", what="%s[%d:%d]+0.03 need on top of 0.1 need of feed and biofuel everywhere" % (key, a, b),
                                  z0=zb, z1=z_of(c2, t2)))
        # the charged base scaled across ten million people (no absolute head count may matter)
        kx = (1.5e7 / c["POP"]) if c["POP"] < 1e7 else (0.5e7 / c["POP"])
        for k in (kx, 2.0):
            c2, t2 = scaled(cb, tb, k)
            pairs.append(dict(kind="scale", what="x%.4g on top of 0.1 need of feed and biofuel everywhere" % k, z0=zb, z1=z_of(c2, t2)))
    # a cap's right-hand side alone (the running slaughter total without the monthly series): relaxing it never hurts
    if c["ADD_MEAT"] and c["STORE_FOOD_BETWEEN_YEARS"]:
        for m in sorted(set(months + [N - 1])):
            c2, t2 = copy.deepcopy(c), copy.deepcopy(t)
            t2["max_consumed_culled_kcals_each_month"] = np.array(t["max_consumed_culled_kcals_each_month"], dtype=float)
            t2["max_consumed_culled_kcals_each_month"][m] += min(bump, float(t["each_month_meat_slaughtered"].kcals[0]) * 0.5 + 1e-9)
            pairs.append(dict(kind="more_supply", what="running_slaughter_total[%s]+" % ("last" if m == N - 1 else m), z0=z0, z1=z_of(c2, t2)))
    for k in (2.0, 0.5):
        c2, t2 = scaled(c, t, k)
        pairs.append(dict(kind="scale", what="x%g" % k, z0=z0, z1=z_of(c2, t2)))
        # the same scaled inputs solved while the settings of the unscaled run are still in force
        pairs.append(dict(kind="scale", what="x%g (settings of the unscaled run in force)" % k, z0=z0, z1=z_of(c2, t2, pop_in_force=c["POP"])))
    pairs.append(dict(kind="scale", what="x1 (settings of a 7.8e9 world run in force)", z0=z0,
                      z1=z_of(copy.deepcopy(c), copy.deepcopy(t), pop_in_force=7.8e9)))
    return pairs


def main():
    jobs = json.load(open(sys.argv[1]))
    out = []
    for job in jobs:
        try:
            pairs = small_pairs(job["inst"]) if job["kind"] == "small" else real_pairs(job)
            out.append(dict(job={k: v for k, v in job.items() if k != "options"}, pairs=pairs))
        except BaseException as ex:  # noqa
            import traceback
            out.append(dict(job={k: v for k, v in job.items() if k != "options"}, error=repr(ex)[:200], tb=traceback.format_exc()[-800:]))
    json.dump(out, open(sys.argv[2], "w"))


if __name__ == "__main__":
    main()
