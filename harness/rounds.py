"""C03 / C16: Rounds.tla — MC_Rounds (protocol, liveness) + one Trace_Rounds trace per recorded run."""
from . import common as C
from . import corpus
from . import tracecheck
from .limbs import num

C03 = {"ThresholdAsConfigured", "ShutoffAsConfigured", "DemandAsConfigured", "StarvingMeansNoFeed", "NotBelowRound1", "FloorAtT", "WithinDemand", "ZeroAfterShutoff", "DemandZeroAfterShutoff",
       "DemandNonNeg", "ThresholdInRange"}
C16 = {"LegalOrder", "SolverOptimal", "ValidatorsPass", "Completed", "PercentFedFiniteNonNeg"}


_TABLE = {}


def table_row(cc):
    if not _TABLE:
        import csv
        import os
        with open(os.path.join(C.REPO, "data/no_food_trade/computer_readable_combined.csv")) as fh:
            for rr in csv.DictReader(fh):
                _TABLE[rr["iso3"]] = rr
    return _TABLE.get(cc)


def run_trace(r):
    ev = []
    hdr = dict(cc=r["job"]["cc"], preset=r["job"]["preset"], ok=r.get("ok"), exc=r.get("exc"))
    inp = r.get("inputs")
    if inp is None or not r.get("lps"):
        ev.append(dict(ev="Failed"))
        return dict(hdr=hdr, ev=ev)
    need = r["lps"][0]["consts"]["need"]
    pct = need / 100.0
    n = inp["NMONTHS"]
    hdr.update(T=inp["T"], store=r["lps"][0]["consts"]["store"])
    o = r["job"]["options"]
    tcfg = float(o.get("MINIMUM_PERCENT_FED_BEFORE_NONHUMAN_CONSUMPTION_ALLOWED", 10.0 if "after_10_percent_fed" in str(o.get("shutoff")) else 100.0))
    sched = {"immediate": (0, 0), "one_month_delayed_shutoff": (1, 1), "short_delayed_shutoff": (2, 1), "long_delayed_shutoff": (3, 2),
             "continued": (n, n), "continued_after_10_percent_fed": (n, n), "long_delayed_shutoff_after_10_percent_fed": (12, 6)}
    # (a "known to fail" combination is run with feed and biofuel shut off immediately: the documented correction)
    sf_cfg, sb_cfg = (0, 0) if (r.get("flags") or {}).get("patched") else sched.get(str(o.get("shutoff")), (-1, -1))
    row = table_row(r["job"]["cc"])
    fy, by = inp["feed_kcals_year"], inp["biofuel_kcals_year"]
    # (million dry caloric tons a year; the world aggregate has its own constants, not a table row)
    fy_cfg = float(o["feed_kcals"]) if "feed_kcals" in o else (float(row["feed_kcals"]) if row else fy)
    by_cfg = float(o["biofuel_kcals"]) if "biofuel_kcals" in o else (float(row["biofuel_kcals"]) if row else by)
    ev.append(dict(ev="Start", T=num(inp["T"]), Tcfg=num(tcfg), shutFcfg=sf_cfg, shutBcfg=sb_cfg,
                   feedYear=num(fy, 1e6), feedYearCfg=num(fy_cfg, 1e6), bioYear=num(by, 1e6), bioYearCfg=num(by_cfg, 1e6), demF=[num(x, pct) for x in r["demand"]["feed"]],
                   demB=[num(x, pct) for x in r["demand"]["biofuel"]], shutF=inp["feed_shutoff"], shutB=inp["biofuel_shutoff"]))
    interp = {i["round"]: i for i in r["interp"]}
    lps = {lp["round"]: lp for lp in r["lps"]}
    if 1 not in lps:
        ev.append(dict(ev="Skip", which="rounds12"))
    for rnd in (1, 2, 3):
        lp = lps.get(rnd)
        if lp is None:
            if rnd == 2 and 1 in lps and 3 in lps:
                ev.append(dict(ev="Skip", which="round2"))
            continue
        v = lp["vars"]
        kc = lp["consts"]["seaweed"]["kcals"]
        feed = [[num(v["stored_food_feed"][m], pct), num(v["crops_food_feed"][m], pct), num(v["methane_scp_feed"][m], pct),
                 num(v["cellulosic_sugar_feed"][m], pct), num(v["seaweed_feed"][m] * kc, pct)] for m in range(n)]
        bio = [[num(v["stored_food_biofuel"][m], pct), num(v["crops_food_biofuel"][m], pct), num(v["methane_scp_biofuel"][m], pct),
                num(v["cellulosic_sugar_biofuel"][m], pct), num(v["seaweed_biofuel"][m] * kc, pct)] for m in range(n)]
        pf = interp[rnd]["pf"] if rnd in interp else 0.0
        if pf != pf or abs(pf) == float("inf"):
            pf = -1.0  # not finite: reported through PercentFedFiniteNonNeg
        ev.append(dict(ev="Round", r=rnd, pf=num(pf), statuses=lp["statuses"], feed=feed, bio=bio))
        hdr["pf%d" % rnd] = pf
    for val in r.get("validators", []):
        if not val["ok"]:
            ev.append(dict(ev="Validator", name=val["name"], ok=False))
    nval = len(r.get("validators", []))
    ev.append(dict(ev="Validator", name="all %d validator calls" % nval, ok=all(v["ok"] for v in r.get("validators", []))))
    ev.append(dict(ev="Done") if r.get("ok") else dict(ev="Failed"))
    return dict(hdr=hdr, ev=ev)


def key_of(t, l, clause):
    h = t["hdr"]
    if clause in ("StarvingMeansNoFeed", "NotBelowRound1"):
        # (the mechanism of the recorded finding G2 needs a no-feed result below the threshold; anything else is a different violation)
        below = h.get("pf1") is not None and h.get("T") is not None and h["pf1"] < h["T"]
        return "%s:%s:%s" % (clause, "storage" if h.get("store") else "first-year-only", "pf1<T" if below else "pf1>=T")
    if clause in ("Completed", "SolverOptimal", "ValidatorsPass"):
        return "%s:%s:%s" % (clause, h["cc"], h["preset"])
    return clause


def run(pid, tier):
    out = C.Outcome(pid, tier)
    mine = C03 if pid == "C03" else C16
    out.rule = ("MC_Rounds exhaustive (protocol orders, liveness under weak fairness); one Trace_Rounds trace per recorded run "
                "(country x preset, see harness/presets.py) with the per-month feed and biofuel draws of every round; distinct = "
                "distinct (country, preset) runs")
    r = C.run_tlc("MC_Rounds", cfg="MC_Rounds.cfg", workers=C.NCPU, timeout=1200)
    out.add_tlc("MC_Rounds", r)
    if r.violated:
        out.violation("spec:%s" % r.violated, "MC_Rounds violates %s" % r.violated, r.out[-3000:])
    traces = []
    for run_ in corpus.runs(tier):
        if run_.get("recorder_error"):
            out.machinery.append("recorder: " + run_["recorder_error"])
            continue
        traces.append(run_trace(run_))
    fails = tracecheck.validate("Trace_Rounds", "Trace_Rounds.cfg", traces, out)
    for (t, l, clause) in fails:
        if clause not in mine:
            continue
        h = t["hdr"]
        e = t["ev"][l - 1] if l <= len(t["ev"]) else {"ev": "end"}
        what = "%s %s T=%s pf1=%s pf3=%s event=%s%s" % (h["cc"], h["preset"], h.get("T"), h.get("pf1"), h.get("pf3"), e.get("ev"),
                                                      (" " + str(h.get("exc"))) if clause == "Completed" else "")
        out.violation(key_of(t, l, clause), what, dict(hdr=h, clause=clause, event_index=l,
                                                       event={k: v for k, v in e.items() if k not in ("feed", "bio", "demF", "demB")}))
    for t in traces:
        out.distinct.add((t["hdr"]["cc"], t["hdr"]["preset"]))
    if traces:
        t = traces[0]
        out.sample(dict(trace=dict(hdr=t["hdr"], events=[e["ev"] + (str(e.get("r", "")) or "") for e in t["ev"]])))
    out.extra["runs_below_threshold"] = sum(1 for t in traces if t["hdr"].get("pf3") is not None and t["hdr"].get("T") is not None
                                            and t["hdr"]["pf3"] < t["hdr"]["T"] - 0.1)
    out.assumptions = ["feed / biofuel drawn from human-edible food = the LP's feed and biofuel variables of the five feed-capable foods",
                       "'essentially none' = 0.1 percent of the monthly requirement per month, the grace is 0.1 point (validate_results.py)",
                       "an exception anywhere in a run is the event Failed"]
    return out.finish()
