"""C13: Options.tla — exhaustive machine + every transition / dispatch case / override replayed on the real objects."""
import json
import os

from . import common as C
from . import presets


def run(pid, tier):
    out = C.Outcome(pid, tier)
    out.rule = ("Options.tla: all sequences of up to two setters after the scale is chosen (every ordered pair of the 58 setters, "
                "both scales), every option family with each supported / unknown / missing value under both scales, all 26 "
                "override keys; each replayed on real Scenarios / ScenarioRunner objects; distinct = distinct transitions and cases")
    r = C.run_tlc("Options", cfg="Options.cfg", workers=C.NCPU, timeout=1200)
    out.add_tlc("Options", r)
    if r.violated:
        out.violation("spec:%s" % r.violated, "Options.tla violates %s" % r.violated, r.out[-3000:])
    r2 = C.run_tlc("Options", cfg="OptionsEmit.cfg", workers=1, timeout=1200)
    out.add_tlc("OptionsEmit", r2)
    cases = []
    for line in r2.out.splitlines():
        if line.startswith('"{'):
            cases.append(json.loads(json.loads(line)))
    if not any(c["k"] == "Tables" for c in cases):
        out.machinery.append("Options.tla did not export its tables")
        return out.finish()
    wd = C.workdir()
    cf, rf = os.path.join(wd, "opt_cases.ndjson"), os.path.join(wd, "opt_rep.json")
    with open(cf, "w") as fh:
        for c in cases:
            fh.write(json.dumps(c) + "\n")
    P = presets.all_presets()
    base = dict(P["net_nuclear_winter"])
    with open(os.path.join(wd, "harness_presets_snapshot.py"), "w") as fh:
        fh.write("BASE_COUNTRY = %r\nBASE_GLOBAL = %r\nBASE_COUNTRY2 = %r\n" % (base, presets.to_global(base), dict(P["ms_simple"])))
    p = C.run_worker("harness.options_replay", [cf, rf], C.scratch_repo(), timeout=3000, extra_env={"PYTHONPATH": wd + os.pathsep + C.VERIF})
    if p.returncode != 0:
        out.machinery.append("options replay failed: " + p.stderr[-1500:])
        return out.finish()
    rj = json.load(open(rf))
    out.traces = rj["setter_cases"] + rj["dispatch_cases"] + rj["override_cases"]
    out.evaluations = out.traces
    out.distinct_n = out.traces
    out.extra.update(setter_transitions=rj["setter_cases"], dispatch_cases=rj["dispatch_cases"], override_cases=rj["override_cases"],
                     mismatches=rj["n_mismatch"], named_setter_compares=rj.get("named_setter_compares", 0), named_setter_skipped=rj.get("named_setter_skipped", 0))
    for m in rj["mismatches"]:
        out.violation(m["key"], "real code disagrees with Options.tla: %s" % m["key"], m)
    out.sample(dict(setter_transition=[c for c in cases if c["k"] == "Setter"][100]))
    out.sample(dict(dispatch_case=[c for c in cases if c["k"] == "Tables"][0]["cases"][5]))
    out.assumptions = ["tables Family / NeedsScale / Owns / Doc in Options.tla are transcribed from scenarios/README.md and the setter docstrings",
                       "'protein: required' and 'fat: required' end the process by design (sys.exit) and are not listed as supported",
                       "base option dictionary: the shipped nuclear-winter preset (ARG / world)"]
    return out.finish()
