"""Mutation self-tests: apply a small realistic change to a scratch copy of the repository (never /repo) and run a
check against it (VERIF_REPO); the check must exit 1.

  python -m harness.selftest M13 M16          run the named mutations
  python -m harness.selftest --prop C07       run every mutation that lists C07
  python -m harness.selftest --patch p.diff C07   apply a diff file and run the C07 quick check

Results are appended to selftest_results.jsonl (provenance only, not evidence).
"""
import json
import os
import shutil
import subprocess
import sys
import tempfile
import time

from . import common as C
from .mutations import MUTATIONS


def make_copy(tag):
    d = tempfile.mkdtemp(prefix="verifmut.%s." % tag, dir=C.shm_root())
    subprocess.run(["rsync", "-a", "--exclude", ".git", "--exclude", "__pycache__", "/repo/", d + "/"], check=True)
    return d


def apply_mutation(d, mut):
    for (rel, old, new) in mut["edits"]:
        p = os.path.join(d, rel)
        s = open(p).read()
        if s.count(old) < 1:
            raise RuntimeError("mutation %s: pattern not found in %s" % (mut["id"], rel))
        s = s.replace(old, new, 1)
        open(p, "w").write(s)


def run_check(d, pid, tier="quick"):
    env = dict(os.environ)
    env["VERIF_REPO"] = d
    env["VERIF_EVIDENCE_DIR"] = os.path.join(d, "_verif_evidence")
    env["VERIF_CACHE_DIR"] = os.path.join(d, "_verif_cache")
    t0 = time.time()
    p = subprocess.run([os.path.join(C.VERIF, "check"), pid, "--tier", tier], env=env, capture_output=True, text=True)
    viol = [l for l in p.stdout.splitlines() if l.startswith("VIOLATION")]
    return p.returncode, viol, time.time() - t0, p.stdout[-3000:] + p.stderr[-3000:]


def main():
    args = sys.argv[1:]
    results = []
    if args and args[0] == "--patch":
        patch, pids = args[1], args[2:]
        d = make_copy("patch")
        try:
            subprocess.run(["git", "init", "-q"], cwd=d, check=True)
            subprocess.run(["git", "apply", os.path.abspath(patch)], cwd=d, check=True)
            for pid in pids:
                rc, viol, dt, tail = run_check(d, pid)
                print("%s on %s: rc=%d  %d violation lines (%.0fs)" % (patch, pid, rc, len(viol), dt))
                for v in viol[:5]:
                    print("   ", v[:260])
                results.append(dict(patch=patch, prop=pid, rc=rc, n=len(viol), first=viol[:3]))
        finally:
            shutil.rmtree(d, ignore_errors=True)
    else:
        if args and args[0] == "--prop":
            muts = [m for m in MUTATIONS if set(args[1:]) & set(m["props"])]
            only = set(args[1:])
        else:
            muts = [m for m in MUTATIONS if m["id"] in args] if args else MUTATIONS
            only = None
        for m in muts:
            d = make_copy(m["id"])
            try:
                apply_mutation(d, m)
                for pid in m["props"]:
                    if only and pid not in only:
                        continue
                    rc, viol, dt, tail = run_check(d, pid)
                    status = "CAUGHT" if rc == 1 else ("MISSED" if rc == 0 else "MACHINERY rc=%d" % rc)
                    print("%s %-7s %s %s (%.0fs) %s" % (m["id"], status, pid, m["what"], dt, viol[0][:200] if viol else ""))
                    if rc not in (0, 1):
                        print(tail[-1500:])
                    results.append(dict(id=m["id"], prop=pid, rc=rc, n=len(viol), first=viol[:3], what=m["what"]))
            finally:
                shutil.rmtree(d, ignore_errors=True)
    with open(os.path.join(C.VERIF, "selftest_results.jsonl"), "a") as fh:
        for r in results:
            r["at"] = time.strftime("%Y-%m-%dT%H:%M:%S")
            fh.write(json.dumps(r) + "\n")
    # restore evidence of the real tree is the caller's job (checks rewrite evidence/<id>.json)
    return 0 if all(r["rc"] == 1 for r in results) else 1


if __name__ == "__main__":
    sys.exit(main())
