"""Spec -> code for C13: replays the transitions / cases emitted by Options.tla on the real Scenarios and ScenarioRunner.
cwd = scratch copy. argv: cases.ndjson report.json"""
import contextlib
import copy
import inspect
import io
import json
import os
import sys

import numpy as np

sys.path.insert(0, os.getcwd())


def flat(d, prefix=""):
    """flatten one level of the dictionaries DELAY / NUTRITION so their entries are separate constants"""
    out = {}
    for k, v in d.items():
        if isinstance(v, dict) and k in ("DELAY", "NUTRITION"):
            for k2, v2 in v.items():
                out["%s.%s" % (k, k2)] = v2
        else:
            out[k] = v
    return out


def same(a, b):
    try:
        if isinstance(a, np.ndarray) or isinstance(b, np.ndarray):
            return np.array_equal(np.asarray(a), np.asarray(b))
        if isinstance(a, dict) and isinstance(b, dict):
            return a.keys() == b.keys() and all(same(a[k], b[k]) for k in a)
        if isinstance(a, (list, tuple)) and isinstance(b, (list, tuple)):
            return len(a) == len(b) and all(same(x, y) for x, y in zip(a, b))
        return bool(a == b)
    except Exception:
        return False


def changed(before, after):
    fb, fa = flat(before), flat(after)
    return {k for k in set(fb) | set(fa) if k not in fb or k not in fa or not same(fb[k], fa[k])}


def doc_matches(val, want, nmonths, row=None):
    if want.startswith("rowlist:"):
        try:
            return row is not None and len(val) == 12 and all(float(val[i]) == float(row[want[8:] + str(i + 1)]) for i in range(12))
        except (TypeError, ValueError, KeyError):
            return False
    if want.startswith("row1p:"):
        return row is not None and abs(float(val) - (1.0 + float(row[want[6:]]))) < 1e-12
    if want.startswith("row:"):
        return row is not None and abs(float(val) - 100.0 * float(row[want[4:]])) < 1e-9
    if want == "N":
        return val == nmonths
    if want in ("True", "False"):
        return val is (want == "True") or val == (want == "True")
    try:
        return abs(float(val) - float(want)) < 1e-12
    except (TypeError, ValueError):
        return str(val) == want


def main():
    import pandas as pd
    from src.scenarios.run_scenario import ScenarioRunner
    from src.scenarios.scenarios import Scenarios
    from src.food_system import animal_populations as ap

    lines = [json.loads(l) for l in open(sys.argv[1])]
    tables = [l for l in lines if l["k"] == "Tables"][0]
    owns = {f: set(v) for f, v in tables["owns"].items()}
    rep = dict(setter_cases=0, dispatch_cases=0, override_cases=0, mismatches=[], n_mismatch=0)

    def bad(key, d):
        rep["n_mismatch"] += 1
        if sum(1 for m in rep["mismatches"] if m["key"] == key) < 3:
            rep["mismatches"].append(dict(key=key, **d))

    tab = pd.read_csv("data/no_food_trade/computer_readable_combined.csv")
    rows = {r["iso3"]: r for _, r in tab.iterrows()}

    def fresh(scale, cc="ARG"):
        sc = Scenarios()
        with contextlib.redirect_stdout(io.StringIO()):
            c = sc.init_global_food_system_properties() if scale == "global" else sc.init_country_food_system_properties(rows[cc])
        c["NMONTHS"] = 120
        c.setdefault("STORE_FOOD_BETWEEN_YEARS", True)  # documented prerequisite of the 'continued' shut-off setters
        return sc, c, {}

    def call(sc, name, c, t, cc="ARG"):
        fn = getattr(sc, name)
        args = []
        for p in inspect.signature(fn).parameters:
            args.append(c if p == "constants_for_params" else t if p in ("time_consts", "time_consts_for_params") else rows[cc] if p == "country_data" else None)
        with contextlib.redirect_stdout(io.StringIO()):
            return fn(*args)

    # ---- 1. setter transitions (all ordered pairs and singles)
    for l in lines:
        if l["k"] != "Setter":
            continue
        rep["setter_cases"] += 1
        for cc in (["ARG"] if l["scale"] == "country" else ["WOR"]):
            sc, c, t = fresh(l["scale"], cc if cc != "WOR" else "ARG")
            ok = True
            for b in l["before"]:
                try:
                    call(sc, b, c, t)
                except BaseException as ex:  # noqa
                    ok = False
                    bad("Setter:prefix-refused:%s" % b, dict(case=l, exc=repr(ex)[:120]))
                    break
            if not ok:
                continue
            c0, t0 = copy.deepcopy(c), copy.deepcopy(t)
            flags0 = {k: v for k, v in vars(sc).items() if k.endswith("_SET")}
            try:
                call(sc, l["s"], c, t)
                accepted = True
            except AssertionError:
                accepted = False
            except BaseException as ex:  # noqa
                accepted = "Error:" + repr(ex)[:100]
            if accepted is not True and accepted is not False:
                bad("Setter:exception:%s" % l["s"], dict(case=l, got=accepted))
                continue
            if accepted != l["accept"]:
                bad("ExactlyOnce:%s" % ("accepted-twice" if accepted else "refused") + ":" + l["family"], dict(case=l, got=accepted))
                continue
            ch = changed(c0, c) | changed(t0, t)
            if accepted:
                extra = ch - owns[l["family"]]
                if extra:
                    bad("WritesOnlyOwnFamily:%s" % l["s"], dict(case=l, extra=sorted(extra)))
                flags1 = {k: v for k, v in vars(sc).items() if k.endswith("_SET")}
                newly = [k for k in flags1 if flags1[k] and not flags0[k]]
                if len(newly) != 1:
                    bad("FlagSetOnce:%s" % l["s"], dict(case=l, newly=newly))
            elif ch:
                bad("RefusedButWrote:%s" % l["s"], dict(case=l, changed=sorted(ch)))

    # ---- 2. dispatch: one family corrupted at a time
    from harness_presets_snapshot import BASE_COUNTRY, BASE_GLOBAL  # written by the driver next to the cases file
    sr = ScenarioRunner()
    for scale, base, cd in (("country", BASE_COUNTRY, rows["ARG"]), ("country", BASE_COUNTRY, rows["AUS"]), ("country", BASE_COUNTRY, rows["JPN"]),
                            ("country", BASE_COUNTRY, rows["CAN"]), ("country", BASE_COUNTRY, rows["RUS"]), ("country", BASE_COUNTRY, rows["MWI"]),
                            ("country", BASE_COUNTRY, rows["PHL"]), ("global", BASE_GLOBAL, None)):
        with contextlib.redirect_stdout(io.StringIO()):
            c_base, _, _ = sr.set_depending_on_option(copy.deepcopy(base), country_data=cd)
        for case in tables["cases"]:
            f, v = case["f"], case["v"]
            if cd is not None and cd is not rows["ARG"] and f not in ("waste", "crop_disruption", "grasses", "seasonality"):
                continue  # (further data rows for the families whose documented values are read from the row)
            opts = copy.deepcopy(base)
            if v == "__missing__":
                opts.pop(f, None)
            else:
                opts[f] = v if v != "__unknown__" else "no_such_value"
            snapshot = copy.deepcopy(opts)
            rep["dispatch_cases"] += 1
            try:
                with contextlib.redirect_stdout(io.StringIO()):
                    c, t, loader = sr.set_depending_on_option(opts, country_data=cd)
                accepted = True
            except (AssertionError, KeyError):
                accepted = False
            except BaseException as ex:  # noqa (includes SystemExit)
                accepted = "Error:" + repr(ex)[:100]
            if opts != snapshot:
                bad("NoCallerMutation:%s" % f, dict(case=case, scale=scale))
            want = case[scale]
            if accepted is not True and accepted is not False:
                bad("Dispatch:exception:%s=%s" % (f, v), dict(case=case, scale=scale, got=accepted))
                continue
            if accepted != want:
                bad("%s:%s=%s" % ("UnknownRejected" if accepted else "SupportedAccepted", f, v), dict(case=case, scale=scale, got=accepted))
                continue
            if accepted:
                try:
                    loader.check_all_set()
                except AssertionError:
                    bad("AllSetBeforeCompute:%s=%s" % (f, v), dict(case=case, scale=scale))
                fc = flat(c)
                fc.update(flat(t))
                for key, val in tables["doc"].get(f, {}).get(v, []):
                    if key not in fc and "." in key and isinstance(fc.get(key.split(".")[0]), dict) and key.split(".")[1] in fc[key.split(".")[0]]:
                        fc[key] = fc[key.split(".")[0]][key.split(".")[1]]   # (an entry of a dictionary-valued constant)
                    if key not in fc or not doc_matches(fc[key], val, opts["NMONTHS"], cd):
                        bad("WritesAsDocumented:%s=%s:%s" % (f, v, key), dict(case=case, scale=scale, got=repr(fc.get(key))[:80], want=val))
                # the value reaches the setter the dispatch table names: the family's constants are the ones that setter writes
                # when called directly on untouched constants of the same scale and row
                sname = tables["dispatch"].get(f, {}).get(v)
                if sname:
                    sc_d, c_d, t_d = fresh(scale, cd["iso3"] if cd is not None else "ARG")
                    c_d["NMONTHS"] = opts["NMONTHS"]
                    try:
                        fn = getattr(sc_d, sname)
                        args = [c_d if p_ == "constants_for_params" else t_d if p_ in ("time_consts", "time_consts_for_params") else cd if p_ == "country_data" else None
                                for p_ in inspect.signature(fn).parameters]
                        with contextlib.redirect_stdout(io.StringIO()):
                            fn(*args)
                        direct = flat(c_d)
                        direct.update(flat(t_d))
                        rep["named_setter_compares"] = rep.get("named_setter_compares", 0) + 1
                        for key in sorted(owns[f]):
                            if key in direct and not (key in fc and same(fc[key], direct[key])):
                                bad("DispatchReachesNamedSetter:%s=%s:%s" % (f, v, key), dict(case=case, scale=scale, setter=sname, got=repr(fc.get(key))[:80], want=repr(direct[key])[:80]))
                    except BaseException:  # noqa  (a setter with prerequisites the dispatcher provides: judged by the transitions of part 1)
                        rep["named_setter_skipped"] = rep.get("named_setter_skipped", 0) + 1
                # other families' constants are what they are in the base dictionary
                ch = changed(c_base, c)
                extra = ch - owns[f]
                if extra:
                    bad("WritesOnlyOwnFamily:dispatch:%s=%s" % (f, v), dict(case=case, scale=scale, extra=sorted(extra)[:8]))

    # ---- 2b. PatchKnownBad: the rewrite must not leak into the caller's dictionary nor into the next country's dispatch
    for kb in tables.get("knownbad", []):
        rep["dispatch_cases"] += 1
        opts = copy.deepcopy(BASE_COUNTRY)
        opts.update(kb["opts"])
        snapshot = copy.deepcopy(opts)
        try:
            with contextlib.redirect_stdout(io.StringIO()):
                c, t, loader = sr.set_depending_on_option(opts, country_data=rows[kb["cc"]])
                c2, t2, loader2 = sr.set_depending_on_option(opts, country_data=rows["USA"])
        except BaseException as ex:  # noqa
            bad("Dispatch:exception:knownbad:%s" % kb["cc"], dict(case=kb, exc=repr(ex)[:120]))
            continue
        if opts != snapshot:
            bad("NoCallerMutation:PatchKnownBad", dict(case=kb, got={k: opts[k] for k in opts if opts[k] != snapshot.get(k)}))
        if c["DELAY"]["FEED_SHUTOFF_MONTHS"] != 0 or c["DELAY"]["BIOFUEL_SHUTOFF_MONTHS"] != 0:
            bad("WritesAsDocumented:PatchKnownBad", dict(case=kb, got=c["DELAY"]))
        want = {"continued": opts["NMONTHS"], "short_delayed_shutoff": 2, "long_delayed_shutoff": 3}[kb["opts"]["shutoff"]]
        if c2["DELAY"]["FEED_SHUTOFF_MONTHS"] != want:
            bad("NoCallerMutation:PatchKnownBad:next-country", dict(case=kb, got=c2["DELAY"]["FEED_SHUTOFF_MONTHS"], want=want))

    # ---- 2c. ... and only the listed combinations are rewritten: with one of the listed options changed the requested shut-off stands
    for kb in tables.get("knownbad", []):
        # (a shut-off schedule the table does not list for this country is left alone too)
        rep["dispatch_cases"] += 1
        opts = copy.deepcopy(BASE_COUNTRY)
        opts.update(kb["opts"])
        opts["shutoff"] = "one_month_delayed_shutoff"
        try:
            with contextlib.redirect_stdout(io.StringIO()):
                c, t, loader = sr.set_depending_on_option(opts, country_data=rows[kb["cc"]])
            if c["DELAY"]["FEED_SHUTOFF_MONTHS"] != 1 or c["DELAY"]["BIOFUEL_SHUTOFF_MONTHS"] != 1:
                bad("WritesAsDocumented:PatchKnownBad:near-miss", dict(case=kb, changed="shutoff", got=c["DELAY"]))
        except BaseException as ex:  # noqa
            bad("Dispatch:exception:knownbad-near-miss:%s" % kb["cc"], dict(case=kb, changed="shutoff", exc=repr(ex)[:120]))
        for k_other, alt in (("cull", "dont_eat_culled"), ("scenario", "no_resilient_foods")):
            if k_other not in kb["opts"] or kb["opts"][k_other] == alt:
                continue
            rep["dispatch_cases"] += 1
            opts = copy.deepcopy(BASE_COUNTRY)
            opts.update(kb["opts"])
            opts[k_other] = alt
            try:
                with contextlib.redirect_stdout(io.StringIO()):
                    c, t, loader = sr.set_depending_on_option(opts, country_data=rows[kb["cc"]])
            except BaseException as ex:  # noqa
                bad("Dispatch:exception:knownbad-near-miss:%s" % kb["cc"], dict(case=kb, changed=k_other, exc=repr(ex)[:120]))
                continue
            want = {"continued": opts["NMONTHS"], "short_delayed_shutoff": 2, "long_delayed_shutoff": 3}[kb["opts"]["shutoff"]]
            if c["DELAY"]["FEED_SHUTOFF_MONTHS"] != want:
                bad("WritesAsDocumented:PatchKnownBad:near-miss", dict(case=kb, changed=k_other, got=c["DELAY"]["FEED_SHUTOFF_MONTHS"], want=want))

    # ---- 2d. the yaml front end: each simulation is run with its own options and the settings' countries and horizon
    try:
        import src.scenarios.run_scenarios_from_yaml as fy
        import src.scenarios.run_model_no_trade as rmnt
        calls = []
        orig_rm = rmnt.ScenarioRunnerNoTrade.run_model_no_trade

        def rec_rm(self, title="untitled", **kw):
            calls.append(dict(title=title, options=copy.deepcopy(kw.get("scenario_option")), countries=copy.deepcopy(kw.get("countries_list"))))
            return None

        rmnt.ScenarioRunnerNoTrade.run_model_no_trade = rec_rm
        fy.ScenarioRunnerNoTrade.run_model_no_trade = rec_rm
        sim1 = dict(copy.deepcopy(BASE_COUNTRY), title="first", CROP_PRODUCTION_MULTIPLIER=0.5, countries=["BRB"])
        sim2 = {k_: v_ for k_, v_ in copy.deepcopy(BASE_COUNTRY).items() if k_ != "fish"}
        sim2["title"] = "second"
        for k_ in ("NMONTHS",):
            sim1.pop(k_, None)
            sim2.pop(k_, None)
        cfg = dict(settings=dict(countries=["MUS", "MLT"], NMONTHS=60), simulations=dict(a=sim1, b=sim2))
        with contextlib.redirect_stdout(io.StringIO()):
            fy.run_scenarios_from_yaml(copy.deepcopy(cfg), False, False, False)
        rep["dispatch_cases"] += 1
        if len(calls) != 2:
            bad("YamlFrontEnd:calls", dict(n=len(calls)))
        else:
            o2 = calls[1]["options"] or {}
            if "fish" in o2:
                bad("AllSetBeforeCompute:yaml:inherited-option", dict(inherited="fish", value=o2.get("fish")))
            if "CROP_PRODUCTION_MULTIPLIER" in o2:
                bad("OverrideIsolation:yaml:inherited-override", dict(inherited="CROP_PRODUCTION_MULTIPLIER"))
            if list(calls[1]["countries"] or []) != ["MUS", "MLT"] or list(calls[0]["countries"] or []) != ["MUS", "MLT"]:
                bad("YamlFrontEnd:countries", dict(first=calls[0]["countries"], second=calls[1]["countries"]))
            if o2.get("NMONTHS") != 60:
                bad("YamlFrontEnd:horizon", dict(got=o2.get("NMONTHS")))
        # a selection written as one plain string reaches the runner as a one-element list (so that a lone "!X" still means "all but X")
        del calls[:]
        cfg2 = dict(settings=dict(countries="!MUS", NMONTHS=60), simulations=dict(a=dict(copy.deepcopy(BASE_COUNTRY), title="only")))
        cfg2["simulations"]["a"].pop("NMONTHS", None)
        with contextlib.redirect_stdout(io.StringIO()):
            fy.run_scenarios_from_yaml(copy.deepcopy(cfg2), False, False, False)
        rep["dispatch_cases"] += 1
        if len(calls) != 1 or calls[0]["countries"] != ["!MUS"]:
            bad("YamlFrontEnd:countries:single-string", dict(got=[c_["countries"] for c_ in calls]))
        rmnt.ScenarioRunnerNoTrade.run_model_no_trade = orig_rm
        fy.ScenarioRunnerNoTrade.run_model_no_trade = orig_rm
    except BaseException as ex:  # noqa
        bad("YamlFrontEnd:exception", dict(exc=repr(ex)[:200]))

    # ---- 2e. the multipliers at world scale (no country row): the caller's dictionary is left as it was, twice in a row
    for key_, tgt_ in (("CROP_PRODUCTION_MULTIPLIER", "RATIO_CROPS_YEAR1"), ("GRASSES_PRODUCTION_MULTIPLIER", "RATIO_GRASSES_YEAR1")):
        rep["override_cases"] += 1
        try:
            with contextlib.redirect_stdout(io.StringIO()):
                c_b, _, _ = sr.set_depending_on_option(copy.deepcopy(BASE_GLOBAL))
            opts = dict(copy.deepcopy(BASE_GLOBAL), **{key_: 0.5})
            snapshot = copy.deepcopy(opts)
            got = []
            for _ in range(2):
                with contextlib.redirect_stdout(io.StringIO()):
                    c_, _, _ = sr.set_depending_on_option(opts)
                got.append(c_[tgt_])
            if opts != snapshot:
                bad("NoCallerMutation:override:global:%s" % key_, dict(missing=sorted(set(snapshot) - set(opts))))
            if any(abs(g_ - 0.5 * c_b[tgt_]) > 1e-12 for g_ in got):
                bad("OverrideTakesEffect:global:%s" % key_, dict(got=got, base=c_b[tgt_]))
        except BaseException as ex:  # noqa
            bad("Override:exception:global:%s" % key_, dict(exc=repr(ex)[:120]))

    # ---- 3. numeric overrides
    from harness_presets_snapshot import BASE_COUNTRY2
    stock_csv = pd.read_csv("data/no_food_trade/animal_feed_data/FAOSTAT_head_and_slaughter.csv", index_col="iso3")
    seen = {}
    o_create = ap.AnimalModelBuilder.create_animal_objects

    def w_create(df_row, df_attr):
        seen["row"] = df_row.copy()
        return o_create(df_row, df_attr)

    cases3 = [(k, t, b, None) for b in (BASE_COUNTRY, BASE_COUNTRY2) for k, t in tables["overrides"].items()]
    # the smallest legal value of an override is a value like any other (zero is falsy in Python, not absent)
    cases3 += [(k, tables["overrides"][k], BASE_COUNTRY, 0) for k in ("MINIMUM_PERCENT_FED_BEFORE_NONHUMAN_CONSUMPTION_ALLOWED", "RATIO_STOCKS_UNTOUCHED")
               if k in tables["overrides"]]
    for key, target, BASE, forced in cases3:
        with contextlib.redirect_stdout(io.StringIO()):
            c_base, _, _ = sr.set_depending_on_option(copy.deepcopy(BASE), country_data=rows["ARG"])
        rep["override_cases"] += 1
        val = {"kg_meat_per_large_animal": 300.5, "MINIMUM_PERCENT_FED_BEFORE_NONHUMAN_CONSUMPTION_ALLOWED": 37, "RATIO_STOCKS_UNTOUCHED": 0.25,
               "CROP_PRODUCTION_MULTIPLIER": 0.5, "GRASSES_PRODUCTION_MULTIPLIER": 2}.get(key, 123457)
        if forced is not None:
            val = forced
        opts = copy.deepcopy(BASE)
        opts[key] = val
        snapshot = copy.deepcopy(opts)
        try:
            with contextlib.redirect_stdout(io.StringIO()):
                c, t, loader = sr.set_depending_on_option(opts, country_data=rows["ARG"])
        except BaseException as ex:  # noqa
            bad("Override:exception:%s" % key, dict(exc=repr(ex)[:120]))
            continue
        if opts != snapshot:
            bad("NoCallerMutation:override:%s" % key, {})
        ch = changed(c_base, c)
        tgt = set(target)
        if key.endswith("_PRODUCTION_MULTIPLIER"):
            tgt = {k for k in tgt if k in flat(c_base)}
        if forced is not None:
            # (the base may already hold that value, then nothing changes; what matters is the value in force)
            fl_c = flat(c)
            if any(fl_c.get(k) != val for k in tgt) or (ch - tgt):
                bad("OverrideTakesEffect:%s=%r" % (key, val), dict(override=key, value=val, got={k: fl_c.get(k) for k in tgt}, changed=sorted(ch)))
        elif ch != tgt:
            bad("OverrideIsolation:%s" % ("head" if key.endswith("_head") else key), dict(override=key, changed=sorted(ch), want=sorted(tgt)))
        if key.endswith("_head") and BASE is BASE_COUNTRY:
            # the override must reach the stock table the herd model is built from: exactly the named species changes
            ap.AnimalModelBuilder.create_animal_objects = staticmethod(w_create) if False else w_create
            try:
                from src.food_system.food import Food
                Food.conversions.set_nutrition_requirements(2100, 47, 51, False, False, 1e7)
                z = Food(np.zeros(3), np.zeros(3), np.zeros(3), "billion kcals each month", "thousand tons each month", "thousand tons each month")
                with contextlib.redirect_stdout(io.StringIO()):
                    ap.main("ARG", z, copy.deepcopy(z), "baseline", constants_inputs={key + "_start": val}, remove_first_month=0,
                            kcals_per_head_meat_dict=None)
                row = seen["row"]
                base_row = stock_csv.loc["ARG"]
                if float(row.get(key, float("nan"))) != float(val):
                    bad("OverrideReachesStockTable:%s" % key, dict(override=key, got=repr(row.get(key)), want=val))
                others = [k for k in base_row.index if k != key and k != "country" and not same(base_row[k], row.get(k))]
                extra_cols = [k for k in row.index if k not in base_row.index]
                if others or extra_cols:
                    bad("OverrideIsolation:stock-table:%s" % key, dict(override=key, changed=others[:5], new_columns=extra_cols[:5]))
            except BaseException as ex:  # noqa
                bad("Override:herd-exception:%s" % key, dict(exc=repr(ex)[:160]))
            finally:
                ap.AnimalModelBuilder.create_animal_objects = o_create
    # numeric overrides outside their documented range are refused by the dispatcher itself
    for key, badval in (("RATIO_STOCKS_UNTOUCHED", -0.25), ("RATIO_STOCKS_UNTOUCHED", 1.5), ("MINIMUM_PERCENT_FED_BEFORE_NONHUMAN_CONSUMPTION_ALLOWED", -5),
                        ("MINIMUM_PERCENT_FED_BEFORE_NONHUMAN_CONSUMPTION_ALLOWED", 150)):
        for BASE in (BASE_COUNTRY, BASE_COUNTRY2):
            opts = copy.deepcopy(BASE)
            opts[key] = badval
            rep["override_cases"] += 1
            try:
                with contextlib.redirect_stdout(io.StringIO()):
                    sr.set_depending_on_option(opts, country_data=rows["ARG"])
                bad("OverrideOutOfRangeRejected:%s=%r" % (key, badval), dict(override=key, value=badval))
            except AssertionError:
                pass
            except BaseException as ex:  # noqa
                bad("Override:exception:%s" % key, dict(exc=repr(ex)[:120]))
    json.dump(rep, open(sys.argv[2], "w"))


if __name__ == "__main__":
    main()
