"""C17: Pipeline.tla — build-graph checks by TLC, recorded script executions / table rows / averaging calls validated by Trace_Pipeline."""
import csv
import json
import os
import subprocess

from . import common as C
from . import tracecheck
from .limbs import num

WAVES = [["create_aquaculture_csv", "create_grasses_baseline_csv", "create_scp_csv", "create_biofuel_csv", "create_greenhouse_csv",
          "create_seasonality_csv", "create_crop_macros_csv", "create_head_count_csv", "create_seaweed_csv", "create_relocation_improvement_csv",
          "create_dairy_csv", "create_meat_csv", "create_feed_csv", "create_nuclear_winter_csv", "create_food_stock_csv", "create_population_csv",
          "create_food_waste_csv", "create_pulp_csv"],
         ["create_milk_per_animal_csv", "create_meat_per_animal_csv"], ["import_food_data"]]
FRACTIONS = ["distribution_loss_crops", "distribution_loss_sugar", "distribution_loss_meat", "distribution_loss_dairy", "distribution_loss_seafood",
             "retail_waste_baseline", "retail_waste_price_double", "retail_waste_price_triple", "fraction_crop_area", "max_area_fraction",
             "new_area_fraction", "initial_built_fraction", "initial_seaweed_fraction"]
QUANT_PREFIX = ("population", "aq_", "grasses_baseline", "dairy", "chicken", "pork", "beef", "small_animals", "medium_animals", "large_animals",
                "biofuel_", "feed_", "crop_kcals", "crop_fat", "crop_protein", "stocks_kcals_", "wood_pulp_tonnes", "crop_area_1000ha",
                "milk_yield", "kg_meat_")


def run(pid, tier):
    out = C.Outcome(pid, tier)
    out.rule = ("Pipeline.tla: build-graph facts and the script machine (quick: dependent core, thorough: all 21 scripts, every order respecting "
                "the dependencies) checked by TLC; all 21 import scripts executed in a scratch copy under an `open` audit hook - each execution, "
                "each of the 164 rows of the rebuilt combined table and 510 averaging-helper vectors are events validated by Trace_Pipeline; "
                "distinct = script executions + rows + vectors")
    r = C.run_tlc("MC_Pipeline", cfg="MC_Pipeline.cfg" if tier == "quick" else "MC_PipelineFull.cfg", workers=C.NCPU, timeout=3000, heap="8g")
    out.add_tlc("MC_Pipeline", r)
    if r.violated:
        out.violation("spec:%s" % r.violated, "Pipeline.tla violates %s" % r.violated, r.out[-3000:])
    if tier == "quick":
        avg_cases = [json.loads(json.loads(l)) for l in r.out.splitlines() if l.startswith('"{')]
    else:
        r2 = C.run_tlc("MC_Pipeline", cfg="MC_Pipeline.cfg", workers=2, timeout=600)
        avg_cases = [json.loads(json.loads(l)) for l in r2.out.splitlines() if l.startswith('"{')]
    scratch = C.scratch_repo("pipeline_scratch")
    wd = C.workdir()
    runs = []
    before = None
    for wi, wave in enumerate(WAVES):
        procs = []
        for s in wave:
            of = os.path.join(wd, "pipe_%s.json" % s)
            procs.append((subprocess.Popen([C.PY, "-m", "harness.pipeline_rec", of, s], cwd=scratch, env=C.worker_env(), stdout=subprocess.DEVNULL,
                                           stderr=subprocess.PIPE, text=True), of, s))
        for p, of, s in procs:
            _, e = p.communicate()
            if p.returncode != 0 or not os.path.exists(of):
                out.machinery.append("pipeline recorder failed on %s: %s" % (s, e[-800:]))
                continue
            d = json.load(open(of))
            if before is None:
                before = d["before"]
            runs += d["runs"]
    shipped = {}
    import hashlib
    for rr in runs:
        for f in rr["writes"]:
            p = os.path.join(C.REPO, f)
            shipped[f] = hashlib.sha256(open(p, "rb").read()).hexdigest() if os.path.exists(p) else None
    strip = lambda f: f.replace("data/no_food_trade/", "")  # noqa
    ev = []
    for rr in runs:
        identical = bool(rr["writes"]) and all(rr["sha"].get(f) == shipped.get(f) for f in rr["writes"])
        ev.append(dict(ev="Ran", script=rr["script"], rc=rr["rc"], reads=[strip(f) for f in rr["reads"]], writes=[strip(f) for f in rr["writes"]],
                       identical=identical))
    # rows of the rebuilt combined table
    comb = os.path.join(scratch, "data", "no_food_trade", "computer_readable_combined.csv")
    rows = list(csv.DictReader(open(comb)))
    cols = list(rows[0].keys()) if rows else []

    def fnum(x):
        try:
            return float(x)
        except ValueError:
            return None

    for row in rows:
        nulls = sum(1 for k in cols if row[k] is None or row[k] == "" or (k not in ("iso3", "country") and (fnum(row[k]) is None or fnum(row[k]) != fnum(row[k]))))
        g = lambda k: num(fnum(row[k]) if fnum(row[k]) is not None and fnum(row[k]) == fnum(row[k]) else 0.0)  # noqa
        ev.append(dict(ev="Row", iso3=row["iso3"], nulls=nulls, seasonality=[g("seasonality_m%d" % i) for i in range(1, 13)],
                       fractions=[g(k) for k in FRACTIONS],
                       reductions=[g(k) for k in cols if k.startswith("crop_reduction_year") or k.startswith("grasses_reduction_year")],
                       quantities=[g(k) for k in cols if k.startswith(QUANT_PREFIX) and not k.endswith("_fraction")]))
    shipped_rows = list(csv.DictReader(open(os.path.join(C.REPO, "data", "no_food_trade", "computer_readable_combined.csv"))))
    ev.append(dict(ev="Table", rows=len(rows), distinct=len({r_["iso3"] for r_ in rows}), expected=164, shipped_rows=len(shipped_rows)))
    # averaging helper
    cf, of = os.path.join(wd, "avg_cases.ndjson"), os.path.join(wd, "avg_out.ndjson")
    with open(cf, "w") as fh:
        for c in avg_cases:
            if c.get("k") == "Avg":
                fh.write(json.dumps(c) + "\n")
    p = C.run_worker("harness.avg_replay", [cf, of], scratch, timeout=600)
    navg = 0
    if p.returncode != 0:
        out.machinery.append("averaging replay failed: " + p.stderr[-800:])
    else:
        for line in open(of):
            rec = json.loads(line)
            navg += 1
            if "exc" in rec:
                out.violation("Avg:exception", "weighted_average_percentages raised %s on %s" % (rec["exc"], rec["p"]), rec)
                continue
            sentinel = rec["result"] > 1e30
            ev.append(dict(ev="Avg", p=[num(x) for x in rec["p"]], w=[num(x) for x in rec["w"]], sentinel=sentinel,
                           result=num(0.0 if sentinel else rec["result"]), raw=rec))
    traces = [dict(hdr={}, ev=[{k: v for k, v in e.items() if k != "raw"} for e in ev])]
    fails = tracecheck.validate("Trace_Pipeline", "Trace_Pipeline.cfg", traces, out, nshards=1)
    for (t, l, clause) in fails:
        e = ev[l - 1]
        if e["ev"] == "Ran":
            out.violation("%s:%s" % (clause, e["script"]), "script %s: reads %s writes %s identical=%s rc=%s" % (e["script"], e["reads"], e["writes"], e["identical"], e["rc"]), e)
        elif e["ev"] == "Row":
            out.violation("%s:row" % clause, "combined table row %s violates %s" % (e["iso3"], clause), dict(iso3=e["iso3"], clause=clause))
        elif e["ev"] == "Table":
            out.violation("%s:table" % clause, "combined table has %s rows, %s distinct codes" % (e["rows"], e["distinct"]), e)
        else:
            out.violation("%s:avg" % clause, "weighted_average_percentages%s -> %s" % (e["raw"]["p"], e["raw"]["result"]), e["raw"])
    out.distinct_n = len(runs) + len(rows) + navg
    out.extra.update(scripts_run=len(runs), rows=len(rows), averaging_vectors=navg,
                     outputs_identical=sum(1 for e in ev if e["ev"] == "Ran" and e["identical"]))
    out.sample(dict(ran=ev[0]))
    out.sample(dict(row={k: (v if k in ("ev", "iso3", "nulls") else "...") for k, v in ev[len(runs)].items()}))
    out.assumptions = ["content identity = sha-256 of the file; byte equality itself is observed, the specification adds declared reads / writes, ordering, "
                       "completeness and the row invariants",
                       "scripts run in a scratch copy, each in its own interpreter, in three waves that respect the declared dependencies"]
    return out.finish()
