"""C04: Report.tla — every interpreted round of every corpus run validated by Trace_Report (+ MC_Report design check)."""
from . import common as C
from . import corpus
from . import tracecheck
from .limbs import num

KEQ = ["stored_food", "seaweed", "cell_sugar", "scp", "greenhouse", "fish", "meat", "milk", "immediate_outdoor_crops",
       "new_stored_outdoor_crops"]
CSVMAP = {"stored_food": "stored_food", "seaweed": "seaweed", "cell_sugar": "cell_sugar", "scp": "scp", "greenhouse": "greenhouse",
          "fish": "fish", "meat": "meat", "milk": "milk", "immediate_outdoor_crops": "immediate_outdoor_crops",
          "new_stored_outdoor_crops": "new_stored_outdoor_crops"}


def round_trace(run, lp, it):
    c = lp["consts"]
    need = c["need"]
    pct = need / 100.0
    n = c["NMONTHS"]
    v, s = lp["vars"], lp["series"]
    ev = [dict(ev="Begin", kind="humans" if lp["kind"] == "H" else "animals", z=num(lp["z"]), pf=num(it["pf"]), kd=num(c["KCALS_DAILY"]),
               swKcal=num(c["seaweed"]["kcals"]), n=n, unchanged=bool(it.get("series_unchanged_afterwards", True)))]
    rep = it["percent"]
    for m in range(n):
        alloc = dict(stored_food=num(v["stored_food_to_humans"][m], pct), outdoor_crops=num(v["crops_food_to_humans"][m], pct),
                     seaweed=num(v["seaweed_to_humans"][m], pct), cell_sugar=num(v["cellulosic_sugar_to_humans"][m], pct),
                     scp=num(v["methane_scp_to_humans"][m], pct), greenhouse=num(s["greenhouse"][m], pct), fish=num(s["fish"][m], pct),
                     meat=num(v["meat_eaten"][m], pct), milk=num(s["milk"][m], pct))
        reported = {f: num(rep[f][m]) for f in ("stored_food", "outdoor_crops", "seaweed", "cell_sugar", "scp", "greenhouse", "fish", "meat", "milk")}
        keq = {k: num(it["kcals_eq"][k][m]) for k in KEQ}
        ok_csv = it.get("csv") and all(CSVMAP[k] in it["csv"] and len(it["csv"][CSVMAP[k]]) == n for k in KEQ)
        # a table that is missing, unparseable or of the wrong length is reported through CsvEqualsResult (sentinel -1)
        csv = {k: num(it["csv"][CSVMAP[k]][m]) for k in KEQ} if ok_csv else {k: num(-1.0) for k in KEQ}
        # the other two uses of the five foods the optimiser splits: allocation (percent of the requirement) and what the result reports
        LPF = dict(stored_food="stored_food", outdoor_crops="crops_food", seaweed="seaweed", cell_sugar="cellulosic_sugar", scp="methane_scp")
        uk = it.get("use_keq") or {}
        has_use = all(uk.get(f) and uk[f].get("feed") is not None and uk[f].get("bio") is not None for f in LPF)
        use_alloc = {f: dict(feed=num(v[lf + "_feed"][m], pct), bio=num(v[lf + "_biofuel"][m], pct)) for f, lf in LPF.items()}
        use_keq = ({f: dict(feed=num(uk[f]["feed"][m]), bio=num(uk[f]["bio"][m])) for f in LPF} if has_use else
                   {f: dict(feed=num(0.0), bio=num(0.0)) for f in LPF})
        ev.append(dict(ev="Month", m=m, alloc=alloc, reported=reported, keq=keq, csv=csv, fed=num(it["kcals_fed"][m]),
                       hasUse=bool(has_use), useAlloc=use_alloc, useKeq=use_keq))
    ev.append(dict(ev="End"))
    return dict(hdr=dict(cc=run["job"]["cc"], preset=run["job"]["preset"], round=lp["round"], kind=lp["kind"], pf=it["pf"], z=lp["z"],
                         has_csv=bool(it.get("csv"))), ev=ev)


def run(pid, tier):
    out = C.Outcome(pid, tier)
    out.rule = ("one Trace_Report trace per interpreted round of every corpus run: per month the LP's human allocation per food "
                "(normalised by the requirement) against the reported percent series, the kcals-equivalent series and the CSV "
                "read back from results/; distinct = distinct (country, preset, round)")
    r = C.run_tlc("MC_Report", cfg="MC_Report.cfg", workers=C.NCPU, timeout=1200)
    out.add_tlc("MC_Report", r)
    if r.violated:
        out.violation("spec:%s" % r.violated, "MC_Report violates %s" % r.violated, r.out[-3000:])
    traces = []
    for run_ in corpus.runs(tier):
        if run_.get("recorder_error"):
            out.machinery.append("recorder: " + run_["recorder_error"])
            continue
        its = {i["round"]: i for i in run_.get("interp", [])}
        for lp in run_.get("lps", []):
            it = its.get(lp["round"])
            if it is None:
                # a round that was solved but never reported: a C04 matter when the reporting code itself gave up
                tb = run_.get("tb") or ""
                if not run_.get("ok") and ("extract_results.py" in tb or "interpret_results.py" in tb):
                    out.violation("SolvedRoundReported:%s" % ("humans" if lp["kind"] == "H" else "animals"),
                                  "%s %s round %d was solved (optimum %.6f) but the reporting code raised %s"
                                  % (run_["job"]["cc"], run_["job"]["preset"], lp["round"], lp["z"], run_.get("exc")),
                                  dict(job=run_["job"], exc=run_.get("exc"), tb=tb[-800:]))
                continue
            traces.append(round_trace(run_, lp, it))
    fails = tracecheck.validate("Trace_Report", "Trace_Report.cfg", traces, out)
    for (t, l, clause) in fails:
        h = t["hdr"]
        e = t["ev"][l - 1] if l <= len(t["ev"]) else {}
        out.violation("%s:%s" % (clause, "humans" if h["kind"] == "H" else "animals"),
                      "%s %s round %d month %s (pf %.6f, optimum %.6f)" % (h["cc"], h["preset"], h["round"], e.get("m", "-"), h["pf"], h["z"]),
                      dict(hdr=h, clause=clause, event_index=l))
    for t in traces:
        out.distinct.add((t["hdr"]["cc"], t["hdr"]["preset"], t["hdr"]["round"]))
    if traces:
        t = traces[len(traces) // 3]
        out.sample(dict(trace=dict(hdr=t["hdr"], begin=t["ev"][0], month_3=t["ev"][4])))
    out.extra["rounds_with_csv"] = sum(1 for t in traces if t["hdr"]["has_csv"])
    out.assumptions = ["the LP allocation and the round's inputs (fish, greenhouse, milk) are captured by wrapping Optimizer.optimize_*",
                       "documented roundings: stored food and outdoor crops percent series to 3 decimals",
                       "the CSV is the file results/<title>_ykcals.csv written by Interpreter.interpret_results, read back by the recorder"]
    return out.finish()
