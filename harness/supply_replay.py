"""Spec -> code for C08 / C09: the per-month recipes emitted by Supply.tla are evaluated on generated inputs and compared with
the real supply classes. cwd = scratch copy. argv: recipes.ndjson report.json n_inputs seed"""
import contextlib
import copy
import io
import json
import os
import random
import sys
from fractions import Fraction

import numpy as np

sys.path.insert(0, os.getcwd())
MONTHS = ["JAN", "FEB", "MAR", "APR", "MAY", "JUN", "JUL", "AUG", "SEP", "OCT", "NOV", "DEC"]


def fr(q):
    return float(Fraction(q[0], q[1]))


def close(a, b, tol=1e-9):
    a = np.asarray(a, dtype=float)
    b = np.asarray(b, dtype=float)
    return a.shape == b.shape and bool(np.all(np.abs(a - b) <= tol * np.maximum(np.abs(b), 1e-30) + 1e-300))


def gen_inputs(rng, N, cfg, small):
    seas = [rng.random() + 0.01 for _ in range(12)]
    s = sum(seas)
    seas = [x / s for x in seas]
    scale = rng.choice([1e-4, 1e-2]) if small else rng.choice([1.0, 30.0, 4000.0])
    c = dict(
        NMONTHS=N, STARTING_MONTH_NUM=5, COUNTRY_CODE=rng.choice(["XXX", "XXX", "ZAF", "JPN"]),
        BASELINE_CROP_KCALS=scale * rng.uniform(50, 500), BASELINE_CROP_FAT=rng.uniform(1, 50), BASELINE_CROP_PROTEIN=rng.uniform(1, 50),
        ADD_OUTDOOR_GROWING=True, WASTE_DISTRIBUTION=dict(CROPS=rng.uniform(0, 20), SEAFOOD=rng.uniform(0, 10), SUGAR=rng.uniform(0, 5),
                                                         MEAT=1.0, MILK=1.0, SEAWEED=rng.uniform(0, 10)),
        WASTE_RETAIL=rng.uniform(0, 30), OG_USE_BETTER_ROTATION=bool(cfg["reloc"]),
        ROTATION_IMPROVEMENTS=dict(POWER_LAW_IMPROVEMENT=rng.uniform(0.5, 0.95), FAT_RATIO=1.647, PROTEIN_RATIO=1.108),
        SEASONALITY=seas, RATIO_INCREASED_CROP_AREA=(rng.uniform(1.2, 2.0) if cfg["expand"] else 1),
        NUMBER_YEARS_TAKES_TO_REACH_INCREASED_AREA=3, INITIAL_HARVEST_DURATION_IN_MONTHS=8,
        DELAY=dict(ROTATION_CHANGE_IN_MONTHS=2, GREENHOUSE_MONTHS=cfg["ghDelay"], INDUSTRIAL_FOODS_MONTHS=cfg["indDelay"],
                   SEAWEED_MONTHS=cfg["swDelay"], FEED_SHUTOFF_MONTHS=min(cfg["feedMonths"], N), BIOFUEL_SHUTOFF_MONTHS=min(cfg["bioMonths"], N)),
        INITIAL_GLOBAL_CROP_AREA=rng.uniform(1e5, 1e9), INITIAL_CROP_AREA_FRACTION=(3.0e-6 if small else rng.uniform(0.001, 1.0)),   # (small countries hold a few millionths of the world's cropland)
        # (a country run also carries the hectares reported in the country table, which are not the share x world cropland)
        INITIAL_CROP_AREA_HA=rng.uniform(1e3, 1e8),
        ADD_GREENHOUSES=bool(cfg["gh"]), GREENHOUSE_AREA_MULTIPLIER=rng.uniform(0.02, 0.3), GREENHOUSE_GAIN_PCT=rng.uniform(10, 60),
        ADD_FISH=True, FISH_DRY_CALORIC_ANNUAL=scale * rng.uniform(1, 100), FISH_PROTEIN_TONS_ANNUAL=rng.uniform(1, 1e4),
        FISH_FAT_TONS_ANNUAL=rng.uniform(1, 1e4),
        END_OF_MONTH_STOCKS={mn: scale * rng.uniform(10, 300) for mn in MONTHS}, RATIO_STOCKS_UNTOUCHED=rng.choice([0, 1, 0.3]),
        PERCENT_STORED_FOOD_TO_USE=100,
        INDUSTRIAL_FOODS_SLOPE_MULTIPLIER=rng.choice([1, 0.5]), POP=rng.uniform(1e5, 1e9), GLOBAL_POP=7.8e9, ADD_METHANE_SCP=True,
        ADD_CELLULOSIC_SUGAR=True, SCP_GLOBAL_PRODUCTION_FRACTION=rng.uniform(0, 0.2), CS_GLOBAL_PRODUCTION_FRACTION=rng.uniform(0, 0.2),
        ADD_SEAWEED=True, SEAWEED_MAX_AREA_FRACTION=rng.uniform(0.001, 0.2), SEAWEED_NEW_AREA_FRACTION=rng.uniform(0.001, 0.2),
        INITIAL_SEAWEED_FRACTION=rng.uniform(0.001, 0.2), MAX_SEAWEED_AS_PERCENT_KCALS_HUMANS=10, MAX_SEAWEED_AS_PERCENT_KCALS_FEED=10,
        MAX_SEAWEED_AS_PERCENT_KCALS_BIOFUEL=10, SEAWEED_GROWTH_PER_DAY={str(i + 1): rng.uniform(0, 12) for i in range(N + 24)},   # (the table is longer than the horizon)
        FEED_KCALS=scale * rng.uniform(0, 200), FEED_FAT=rng.uniform(0, 100), FEED_PROTEIN=rng.uniform(0, 100),
        BIOFUEL_KCALS=scale * rng.uniform(0, 50), BIOFUEL_FAT=rng.uniform(0, 10), BIOFUEL_PROTEIN=rng.uniform(0, 10),
        HUMAN_INEDIBLE_FEED_BASELINE_MONTHLY=scale * rng.uniform(1, 400), ADD_MILK=True, ADD_MEAT=True, TONS_MILK_ANNUAL=1.0,
        TONS_CHICKEN_AND_PORK_ANNUAL=1.0, TONS_BEEF_ANNUAL=1.0, INITIAL_MILK_CATTLE=1.0, INIT_SMALL_ANIMALS=10.0, INIT_MEDIUM_ANIMALS=10.0,
        INIT_LARGE_ANIMALS_WITH_MILK_COWS=20.0)
    for i in range(1, 12):
        c["RATIO_CROPS_YEAR%d" % i] = rng.choice([rng.uniform(0, 1), rng.uniform(0, 1), rng.uniform(1, 1.3), rng.uniform(1.8, 2.6), 0.0])
        c["RATIO_GRASSES_YEAR%d" % i] = rng.uniform(0, 1.2)
    fish_pct = np.array([rng.uniform(50, 100) for _ in range(N + 24)])
    return c, fish_pct


def y1_factor(r1, seas, cc):
    hb = 1 if cc == "ZAF" else 0 if cc in ("JPN", "PRK", "KOR") else sum(seas[:4])
    after_nw = max(0.0, r1 - hb)
    after = 1 - hb
    if after_nw <= 0:
        return 0.0
    return 1.0 if after < 0.25 else after_nw / after


def expected(rec, c, fish_pct, kcals_monthly):
    N = rec["N"]
    seed_frac = 1 - (92 / 3898)
    annual = c["BASELINE_CROP_KCALS"] * seed_frac
    cyc = [c["SEASONALITY"][k] * annual * 4e6 / 1e9 for k in range(12)]
    y1 = y1_factor(c["RATIO_CROPS_YEAR1"], c["SEASONALITY"], c["COUNTRY_CODE"])
    expo = c["ROTATION_IMPROVEMENTS"]["POWER_LAW_IMPROVEMENT"] if c["OG_USE_BETTER_ROTATION"] else 1
    wd = 1 - c["WASTE_DISTRIBUTION"]["CROPS"] / 100
    total_area = c["INITIAL_GLOBAL_CROP_AREA"] * c["INITIAL_CROP_AREA_FRACTION"]
    out = dict(crops=[], crops_grown_reloc=[], crops_grown_plain=[], gh_frac=[], greenhouse=[], fish=[], grass=[], feed=[], biofuel=[], scp=[], cs=[],
               sw_area=[], sw_growth=[])
    global_needs = c["GLOBAL_POP"] * kcals_monthly / 1e9
    sw_new = 2.0765 * 30 * c["SEAWEED_NEW_AREA_FRACTION"]
    sw_init = 0.1 * c["SEAWEED_NEW_AREA_FRACTION"]
    sw_max = 1853 * c["SEAWEED_MAX_AREA_FRACTION"]
    for m, r in enumerate(rec["months"]):
        ratio = y1 if r["cropYear"] == 1 else c["RATIO_CROPS_YEAR%d" % r["cropYear"]]
        plain = cyc[r["cal"]] * ratio
        powered = cyc[r["cal"]] * (ratio if ratio > 1 else ratio ** expo)
        area = 1 + fr(r["expand"]) * (c["RATIO_INCREASED_CROP_AREA"] - 1)
        reloc = powered * area
        ghf = fr(r["gh"]) * c["GREENHOUSE_AREA_MULTIPLIER"] if c["ADD_GREENHOUSES"] and total_area > 0 else 0.0   # (no cropland: none occupied)
        grown = reloc if r["relocated"] else plain
        out["crops_grown_reloc"].append(reloc)
        out["crops_grown_plain"].append(plain)
        out["gh_frac"].append(ghf)
        out["crops"].append(grown * (1 - ghf) * wd)
        gh_yield = 0.0 if total_area == 0 else np.mean(cyc) / total_area * (ratio if ratio > 1 else ratio ** expo) * wd * (1 - c["WASTE_RETAIL"] / 100) * (1 + c["GREENHOUSE_GAIN_PCT"] / 100)
        out["greenhouse"].append(gh_yield * ghf * total_area)
        fish_k = c["FISH_DRY_CALORIC_ANNUAL"] * (1 - c["WASTE_DISTRIBUTION"]["SEAFOOD"] / 100) * (1 - c["WASTE_RETAIL"] / 100) * 4e6 / 1e9 / 12
        out["fish"].append(fish_pct[m] / 100 * fish_k if c["ADD_FISH"] else 0.0)
        out["grass"].append(c["RATIO_GRASSES_YEAR%d" % r["grassYear"]] * c["HUMAN_INEDIBLE_FEED_BASELINE_MONTHLY"] * 4000.0)
        out["feed"].append(c["FEED_KCALS"] / 12 * 4e6 / 1e9 if r["feedOn"] else 0.0)
        out["biofuel"].append(c["BIOFUEL_KCALS"] / 12 * 4e6 / 1e9 if r["bioOn"] else 0.0)
        out["scp"].append(r["scp"] / 0.88 * c["INDUSTRIAL_FOODS_SLOPE_MULTIPLIER"] / 100 * global_needs * c["SCP_GLOBAL_PRODUCTION_FRACTION"]
                          * (1 - c["WASTE_DISTRIBUTION"]["SUGAR"] / 100))
        out["cs"].append(r["cs"] / 10 / 0.88 * c["INDUSTRIAL_FOODS_SLOPE_MULTIPLIER"] / 100 * global_needs * c["CS_GLOBAL_PRODUCTION_FRACTION"]
                         * (1 - c["WASTE_DISTRIBUTION"]["SUGAR"] / 100))
        out["sw_area"].append(min(sw_max, sw_init + r["seaweed"] * sw_new))
        out["sw_growth"].append(100 * (c["SEAWEED_GROWTH_PER_DAY"][str(m + 1)] / 100 + 1) ** 30)
    return out


def run_real(c, fish_pct):
    from src.food_system.cellulosic_sugar import CellulosicSugar
    from src.food_system.feed_and_biofuels import FeedAndBiofuels
    from src.food_system.food import Food
    from src.food_system.greenhouses import Greenhouses
    from src.food_system.meat_and_dairy import MeatAndDairy
    from src.food_system.methane_scp import MethaneSCP
    from src.food_system.outdoor_crops import OutdoorCrops
    from src.food_system.seafood import Seafood
    from src.food_system.seaweed import Seaweed
    from src.food_system.stored_food import StoredFood

    Food.conversions.set_nutrition_requirements(2100, 47, 51, False, False, c["POP"])
    res = {}
    with contextlib.redirect_stdout(io.StringIO()):
        # crops, greenhouses, single-cell protein, sugar and stored food go through the glue of Parameters (init_*), the way a run
        # builds them; the greenhouse share itself is read from a separate Greenhouses object
        from src.optimizer.parameters import Parameters
        par = Parameters()
        c = copy.deepcopy(c)
        co, oc = par.init_outdoor_crops({}, c)
        oc2 = OutdoorCrops(c)
        oc2.calculate_rotation_ratios(c)
        oc2.calculate_monthly_production(c)
        gh = Greenhouses(c)
        gh.get_greenhouse_area(c, oc2)
        res["gh_frac"] = np.array(gh.greenhouse_fraction_area, dtype=float)
        tc = par.init_greenhouse_params({}, c, oc)
        res["greenhouse"] = np.array(tc["greenhouse_crops"].kcals, dtype=float)
        oc = tc["outdoor_crops"]
        # (the harvest is saved to a table before the first round is solved - the way the web interface asks for it - and the series the
        # rounds then use is the one that was computed: saving changes nothing)
        try:
            from types import SimpleNamespace
            from src.scenarios.run_scenario import ScenarioRunner
            from src.food_system.food import Food as _Food
            _Food.conversions.set_nutrition_requirements(2100, 47, 51, False, False, c["POP"])
            before_ = np.array(oc.production.kcals, dtype=float).copy()
            with contextlib.redirect_stdout(io.StringIO()):
                ScenarioRunner().save_outdoor_crop_production_to_csv({"outdoor_crops": oc}, "supply_replay_%d" % os.getpid(), SimpleNamespace(country="X"))
            res["crops_changed_by_saving"] = not np.array_equal(before_, np.array(oc.production.kcals, dtype=float))
        except BaseException as ex_:  # noqa
            res["crops_changed_by_saving"] = "exception: " + repr(ex_)[:100]
        res["crops"] = np.array(oc.production.kcals, dtype=float)
        res["crops_dtype"] = str(np.asarray(oc.production.kcals).dtype)
        res["crops_grown_reloc"] = np.array(oc.KCALS_GROWN, dtype=float)
        res["crops_grown_plain"] = np.array(oc.NO_RELOCATION_KCALS_GROWN, dtype=float)
        sf = Seafood(c)
        sf.set_seafood_production({"FISH_PERCENT_MONTHLY": fish_pct})
        res["fish"] = np.array(sf.to_humans.kcals, dtype=float)
        md = MeatAndDairy(c)
        res["grass"] = np.array(md.human_inedible_feed.kcals, dtype=float)
        fb = FeedAndBiofuels(c)
        bio, feed = fb.get_biofuels_and_feed_from_delayed_shutoff(c)
        res["feed"] = np.array(feed.kcals, dtype=float)
        res["biofuel"] = np.array(bio.kcals, dtype=float)
        co, tc, scp = par.init_scp_params(co, tc, c)
        res["scp"] = np.array(tc["methane_scp"].kcals, dtype=float)
        co, tc, cs = par.init_cs_params(co, tc, c)
        res["cs"] = np.array(tc["cellulosic_sugar"].kcals, dtype=float)
        # (through the glue as well: what the optimiser is handed is the first NMONTHS entries of the tables)
        got_sw = par.set_seaweed_params(co, c)
        res["sw_area"] = np.array(got_sw[1], dtype=float)
        # (the growth table may be longer than the horizon - the shipped one has 120 entries whatever the horizon; the optimiser reads
        # entry m in month m, so the first NMONTHS entries are the series)
        res["sw_growth"] = np.array(got_sw[2], dtype=float)[:c["NMONTHS"]]
        co["ADD_STORED_FOOD"] = True
        co, st = par.init_stored_food(co, c, oc)
        res["stored_food"] = float(np.asarray(st.initial_available.kcals).reshape(-1)[0])
    return res


def main():
    recs = [json.loads(l) for l in open(sys.argv[1])]
    n_inputs, seed = int(sys.argv[3]), int(sys.argv[4])
    rng = random.Random(seed)
    rep = dict(recipes=0, runs=0, series_checked=0, y1_cases=0, mismatches=[], n_mismatch=0)

    def bad(key, d):
        rep["n_mismatch"] += 1
        if sum(1 for m in rep["mismatches"] if m["key"] == key) < 3:
            rep["mismatches"].append(dict(key=key, **d))

    from src.food_system.outdoor_crops import OutdoorCrops
    # the fish disruption schedule handed out by the scenario loader: the same on every set-up of a process, starting at 100 %
    try:
        from src.scenarios.scenarios import Scenarios
        got = []
        for _ in range(3):
            sc = Scenarios()
            with contextlib.redirect_stdout(io.StringIO()):
                tcx = sc.set_fish_nuclear_winter_reduction({})
            got.append(np.array(tcx["FISH_PERCENT_MONTHLY"], dtype=float))
        if not (np.array_equal(got[0], got[1]) and np.array_equal(got[1], got[2])):
            bad("C08:SetupIsRepeatable:fish", dict(first=float(got[0][0]), second=float(got[1][0]), third=float(got[2][0])))
        if abs(got[0][0] - 100.0) > 1e-9 or np.any(got[0] < 0) or np.any(got[0] > 100.0 + 1e-9):
            bad("C08:EqualsDocumented:fish_schedule", dict(first=float(got[0][0]), minimum=float(got[0].min()), maximum=float(got[0].max())))
    except BaseException as ex:  # noqa
        bad("exception", dict(where="fish schedule", exc=repr(ex)[:160]))
    stock_idx = {r["start"]: r["idx"] for r in recs if r["k"] == "Stock"}
    for r in recs:
        if r["k"] == "Y1":
            rep["y1_cases"] += 1
            r1, hb = fr(r["r1"]), fr(r["hb"])
            seas = [hb / 4] * 4 + [(1 - hb) / 8] * 8
            oc = OutdoorCrops.__new__(OutdoorCrops)
            got = oc.get_year_1_ratio_using_fraction_harvest_before_may(r1, seas, "XXX")
            if not close(got, fr(r["y1"])):
                bad("C08:EqualsDocumented:year1_factor", dict(case=r, got=float(got)))
    for rec in recs:
        if rec["k"] != "Recipe":
            continue
        rep["recipes"] += 1
        N, cfg = rec["N"], rec["cfg"]
        for j in range(n_inputs):
            small = (j % 3 == 2)
            c, fish = gen_inputs(rng, N, cfg, small)
            if rep["runs"] % 5 == 2:
                c["ADD_FISH"] = False     # (fish switched off: one zero per simulated month, whatever the length of the reduction table)
            nocrop = (rep["runs"] % 7 == 3)
            if nocrop:
                # an input with a harvest but no cropland on record (Singapore's row; `fraction_crop_area: 0`): greenhouses occupy nothing
                c["INITIAL_CROP_AREA_FRACTION"] = 0.0
                c["INITIAL_CROP_AREA_HA"] = 0.0
            try:
                real = run_real(c, fish)
            except BaseException as ex:  # noqa
                bad("exception", dict(N=N, cfg=cfg, exc=repr(ex)[:200]))
                continue
            rep["runs"] += 1
            if real.get("crops_changed_by_saving"):
                bad("C09:NotQuantised:saving-the-harvest-table-changes-the-harvest", dict(N=N, cfg=cfg, got=real["crops_changed_by_saving"]))
            exp = expected(rec, c, fish, 2100 * 30)
            label = "N=%d reloc=%s gh=%s expand=%s%s%s" % (N, cfg["reloc"], cfg["gh"], cfg["expand"], " small" if small else "", " no-cropland" if nocrop else "")
            for name in ("crops", "greenhouse", "fish", "grass", "feed", "biofuel", "scp", "cs", "sw_area", "sw_growth", "gh_frac"):
                rep["series_checked"] += 1
                got = real[name]
                prop = "C09" if name in ("crops", "gh_frac") else "C08"
                if len(got) != N:
                    bad("%s:OnePerMonth:%s" % (prop, name), dict(where=label, got_len=len(got)))
                    continue
                if not np.all(np.isfinite(got)) or np.any(got < -1e-12):
                    bad("%s:FiniteNonNeg:%s" % (prop, name), dict(where=label))
                if not close(got, exp[name]):
                    i = int(np.argmax(np.abs(np.asarray(got) - np.asarray(exp[name]))))
                    sub = ""
                    if name == "crops":
                        sub = ":relocated" if cfg["reloc"] else ":not-relocated"
                        sub += ":with-greenhouses" if cfg["gh"] else ""
                    bad("%s:EqualsDocumented:%s%s" % (prop, name, sub), dict(where=label, month=i, got=float(got[i]), want=float(exp[name][i])))
                    if name == "greenhouse":  # what the greenhouses yield on the cropland they take is part of the cropland balance (C09)
                        bad("C09:EqualsDocumented:greenhouse", dict(where=label, month=i, got=float(got[i]), want=float(exp[name][i])))
                    if name == "crops":  # the crop series is also a calendar-aligned supply series (C08)
                        bad("C08:EqualsDocumented:crops%s" % sub, dict(where=label, month=i, got=float(got[i]), want=float(exp[name][i])))
            # stored food at the start (May)
            stocks = [c["END_OF_MONTH_STOCKS"][mn] for mn in MONTHS]
            want_sf = (stocks[stock_idx[5]] * c["PERCENT_STORED_FOOD_TO_USE"] / 100 - min(stocks) * c["RATIO_STOCKS_UNTOUCHED"]) * 4e6 / 1e9 * (
                1 - c["WASTE_DISTRIBUTION"]["CROPS"] / 100)
            # (a difference of two terms: the tolerance is relative to the terms, not to their difference, which may cancel to ~0)
            sf_scale = (abs(stocks[stock_idx[5]] * c["PERCENT_STORED_FOOD_TO_USE"] / 100) + abs(min(stocks) * c["RATIO_STOCKS_UNTOUCHED"])) * 4e6 / 1e9
            if not abs(real["stored_food"] - want_sf) <= 1e-9 * max(abs(want_sf), sf_scale):
                bad("C08:EqualsDocumented:stored_food", dict(where=label, got=real["stored_food"], want=want_sf))
            # C09 relations
            if cfg["reloc"] and np.any(real["crops_grown_reloc"] < real["crops_grown_plain"] * (1 - 1e-12) - 1e-300):
                bad("C09:RelocationNeverLowers", dict(where=label))
            if np.any(np.diff(real["gh_frac"]) < -1e-15) or (cfg["gh"] and real["gh_frac"].max() > c["GREENHOUSE_AREA_MULTIPLIER"] * (1 + 1e-12)):
                bad("C09:GhMonotoneCapped", dict(where=label))
            if cfg["gh"] and np.any(real["gh_frac"][: cfg["ghDelay"] + 5] != 0):
                bad("C09:GhZeroBeforeDelay", dict(where=label))
            # scaling law: k x baseline -> k x series
            if j == 0:
                for kf in (2.0, 0.37):
                    c2 = json.loads(json.dumps(c))
                    for key in ("BASELINE_CROP_KCALS", "FISH_DRY_CALORIC_ANNUAL", "FEED_KCALS", "BIOFUEL_KCALS", "HUMAN_INEDIBLE_FEED_BASELINE_MONTHLY"):
                        c2[key] = c[key] * kf
                    c2["END_OF_MONTH_STOCKS"] = {k: v * kf for k, v in c["END_OF_MONTH_STOCKS"].items()}
                    try:
                        real2 = run_real(c2, fish)
                    except BaseException as ex:  # noqa
                        bad("exception:scaled", dict(exc=repr(ex)[:160]))
                        continue
                    for name in ("crops", "greenhouse", "fish", "grass", "feed", "biofuel"):
                        if not close(real2[name], np.asarray(real[name]) * kf, 1e-9):
                            bad("%s:LinearInBaseline:%s" % ("C09" if name == "crops" else "C08", name), dict(where=label, factor=kf))
                    if not abs(real2["stored_food"] - real["stored_food"] * kf) <= 1e-9 * max(abs(real["stored_food"] * kf), sf_scale * kf):
                        bad("C08:LinearInBaseline:stored_food", dict(where=label, factor=kf))
    json.dump(rep, open(sys.argv[2], "w"))


if __name__ == "__main__":
    main()
