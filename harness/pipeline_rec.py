"""Runs the import scripts of src/import_scripts_no_food_trade in the scratch copy, each in its own interpreter under an audit hook that
records the data files it opens, and reports content hashes. cwd = scratch copy. argv: out.json [script ...]"""
import hashlib
import json
import os
import subprocess
import sys

SCRIPTS = ["create_aquaculture_csv", "create_grasses_baseline_csv", "create_scp_csv", "create_biofuel_csv", "create_greenhouse_csv",
           "create_seasonality_csv", "create_crop_macros_csv", "create_head_count_csv", "create_seaweed_csv",
           "create_relocation_improvement_csv", "create_dairy_csv", "create_meat_csv", "create_feed_csv", "create_nuclear_winter_csv",
           "create_food_stock_csv", "create_population_csv", "create_food_waste_csv", "create_pulp_csv", "create_milk_per_animal_csv",
           "create_meat_per_animal_csv", "import_food_data"]

HOOK = r'''
import sys, os, json, runpy
_log = []
_root = os.path.realpath(%(root)r)
def _hook(ev, args):
    if ev == "open":
        p, mode = args[0], args[1]
        if isinstance(p, (str, bytes, os.PathLike)):
            try:
                rp = os.path.realpath(os.fspath(p))
            except Exception:
                return
            if isinstance(rp, bytes):
                rp = rp.decode()
            if rp.startswith(os.path.join(_root, "data")):
                _log.append([os.path.relpath(rp, _root), "w" if (mode and any(c in str(mode) for c in "wax+")) else "r"])
sys.addaudithook(_hook)
sys.path.insert(0, _root)
os.chdir(os.path.join(_root, "src", "import_scripts_no_food_trade"))
try:
    runpy.run_path(%(script)r + ".py", run_name="__main__")
    rc = 0
except SystemExit as e:
    rc = e.code or 0
except BaseException as e:
    import traceback; traceback.print_exc(); rc = 1
json.dump(dict(rc=rc, log=_log), open(%(out)r, "w"))
'''


def sha(p):
    with open(p, "rb") as fh:
        return hashlib.sha256(fh.read()).hexdigest()


def main():
    root = os.getcwd()
    out = sys.argv[1]
    scripts = sys.argv[2:] or SCRIPTS
    before = {}
    for d, _, fs in os.walk(os.path.join(root, "data", "no_food_trade")):
        for f in fs:
            p = os.path.join(d, f)
            before[os.path.relpath(p, root)] = sha(p)
    recs = []
    for s in scripts:
        tmp = os.path.join(root, "_audit_%s.json" % s)
        code = HOOK % dict(root=root, script=s, out=tmp)
        env = dict(os.environ, MPLBACKEND="Agg", PYTHONHASHSEED="0")
        p = subprocess.run([sys.executable, "-c", code], capture_output=True, text=True, env=env)
        if os.path.exists(tmp):
            r = json.load(open(tmp))
            os.remove(tmp)
        else:
            r = dict(rc=99, log=[])
        reads = sorted({f for f, m in r["log"] if m == "r"})
        writes = sorted({f for f, m in r["log"] if m == "w"})
        recs.append(dict(script=s, rc=r["rc"], reads=reads, writes=writes, sha={f: sha(os.path.join(root, f)) for f in writes if os.path.exists(os.path.join(root, f))},
                         stderr=p.stderr[-600:] if r["rc"] else ""))
    json.dump(dict(before=before, runs=recs), open(out, "w"))


if __name__ == "__main__":
    main()
