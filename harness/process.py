"""C14 / C15: Process.tla — histories executed in one process vs alone; aggregate cases replayed through run_model_no_trade."""
import gzip
import hashlib
import json
import os
import subprocess

from . import common as C
from . import presets


def emit(out, tier):
    r = C.run_tlc("MC_Process", cfg="MC_Process.cfg", workers=4, timeout=1200)
    out.add_tlc("MC_Process", r)
    if r.violated:
        out.violation("spec:%s" % r.violated, "Process.tla violates %s" % r.violated, r.out[-3000:])
    for cfg, what in (("MC_ProcessBroken.cfg", "a read before SetGlobals"), ("MC_ProcessBrokenOpt.cfg", "a correction applied to the caller's options"),
                      ("MC_ProcessBrokenTab.cfg", "an override written into a shared table"),
                      ("MC_ProcessBrokenHor.cfg", "a simulation's own horizon replacing the settings' default"),
                      ("MC_ProcessBrokenLim.cfg", "an intake-limit edit written into the loader's shared table")):
        rb = C.run_tlc("MC_Process", cfg=cfg, workers=4, timeout=1200)
        out.tlc_runs.append(dict(name=cfg[:-4] + " (must be refuted)", **rb.summary()))
        if not rb.violated:
            out.machinery.append("vacuity: the model with %s was not refuted" % what)
    r2 = C.run_tlc("MC_Process", cfg="MC_ProcessEmit.cfg" if tier == "quick" else "MC_ProcessEmit3.cfg", workers=1, timeout=3000)
    out.add_tlc("MC_ProcessEmit", r2)
    cases = []
    seen = set()
    for line in r2.out.splitlines():
        if line.startswith('"{'):
            if line not in seen:
                seen.add(line)
                cases.append(json.loads(json.loads(line)))
    return cases


def run_types():
    P = presets.all_presets()
    bad = dict(P["net_baseline"], waste="no_such_waste_level")
    # a "known to fail" combination for ALB (corrected to shutoff=immediate for that country only)
    kf = dict(P["net_nuclear_resilient"], scenario="seaweed", shutoff="continued", cull="do_eat_culled", NMONTHS=72)
    return {
        "r_alb_kf": dict(cc="ALB", preset="known_to_fail_for_ALB", options=kf),
        "r_arg_kf": dict(cc="ARG", preset="known_to_fail_for_ALB", options=kf),
        "r_dji_capoff": dict(cc="DJI", preset="net_nuclear_resilient_caps_off",
                             options=dict(P["net_nuclear_resilient"], intake_constraints="disabled_for_humans")),
        "r_arg_own48": dict(cc="ARG", preset="net_baseline_own_horizon_48", options=dict(P["net_baseline"], NMONTHS=48)),
        # (also the one run of Argentina under a crop disruption with another seasonality and another stock regime than its neighbours)
        "r_arg_herd": dict(cc="ARG", preset="nw_custom_herd", options=dict(P["net_nuclear_winter"], seasonality="no_seasonality",
                                                                           ratio_stocks_untouched="baseline_no_stored_between_years",
                                                                           meat_cattle_head=5000000, pig_head=100000,
                                                                           # (... and every other kind of numeric override a run can carry)
                                                                           kg_meat_per_large_animal=150, retail_waste_baseline=0.10,
                                                                           MINIMUM_PERCENT_FED_BEFORE_NONHUMAN_CONSUMPTION_ALLOWED=90,
                                                                           CROP_PRODUCTION_MULTIPLIER=0.95, GRASSES_PRODUCTION_MULTIPLIER=0.9,
                                                                           RATIO_STOCKS_UNTOUCHED=0.5)),
        "r_arg_base": dict(cc="ARG", preset="net_baseline", options=P["net_baseline"]),
        # (New Zealand: the one country the final round treats specially - a wider safety margin under its feed)
        # (... run with Argentina's baseline options, so that the two can share one by-country call)
        "r_nzl_base": dict(cc="NZL", preset="net_baseline", options=P["net_baseline"]),
        "r_dji_res": dict(cc="DJI", preset="net_nuclear_resilient", options=P["net_nuclear_resilient"]),
        "r_wor": dict(cc="WOR", preset="ms_worst", options=presets.to_global(P["ms_worst"])),
        "r_bad": dict(cc="ARG", preset="bad_option", options=bad),
    }


YAML_NMONTHS = 120


def digest(rec, joined=False):
    # (for a run inside a shared by-country call the call's return value and console text cover both countries)
    d = {k: v for k, v in rec.items() if k not in (("wall", "tb", "job", "returned", "flags") if joined else ("wall", "tb", "job"))}
    return hashlib.sha256(json.dumps(d, sort_keys=True).encode()).hexdigest(), d


def run_c14(pid, tier):
    out = C.Outcome(pid, tier)
    out.rule = ("histories enumerated by TLC from Process.tla (quick: every history of length <= 2 over 5 distinguishable runs incl. a "
                "failing one; thorough: length <= 3) are each executed in one fresh process; every run's full observation (headline, "
                "all monthly series, LP values, herd trajectories, hand-offs) is compared bit for bit with the same run alone in a fresh process")
    cases = [c for c in emit(out, tier) if c["k"] == "History"]
    hists = sorted({tuple((r, j) for r, j in zip(c["h"], c["joined"])) for c in cases})
    if not hists:
        out.machinery.append("no histories emitted")
        return out.finish()
    RT = run_types()
    wd = C.workdir()
    scratch = C.scratch_repo()
    procs = []
    targets = {}
    for i, h in enumerate(hists):
        jf = os.path.join(wd, "hist_%d.json" % i)
        # a run joined to its predecessor runs in the same by-country call (one option dictionary for both countries)
        jobs = []
        targets[h] = []
        for k, (r, j) in enumerate(h):
            nxt = h[k + 1][1] if k + 1 < len(h) else None
            if j in ("yamlfirst", "yamlnext"):
                # the simulations of one yaml front-end call: one job, one record per simulation
                if j == "yamlfirst":
                    jobs.append(dict(cc=RT[r]["cc"], preset="yaml_call", options={}, yaml=dict(NMONTHS=YAML_NMONTHS, sims=[])))
                jobs[-1]["yaml"]["sims"].append(dict(name="sim%d_%s" % (k, r), preset=RT[r]["preset"], options=RT[r]["options"]))
                targets[h].append((k, r, j))
                continue
            job = dict(RT[r])
            if nxt == "country":
                continue  # executed inside the next job's call
            if j == "country":
                job["with"] = [RT[h[k - 1][0]]["cc"]]
            jobs.append(job)
            targets[h].append((k, r, j))
        json.dump(jobs, open(jf, "w"))
        procs.append((h, os.path.join(wd, "hist_%d.ndjson.gz" % i), jf))
    running = []
    outs = {}

    def reap(block):
        for item in list(running):
            p, h, of = item
            if block:
                p.wait()
            if p.poll() is not None:
                running.remove(item)
                if p.returncode != 0:
                    out.machinery.append("history %s: recorder exit %s" % (h, p.returncode))
                else:
                    outs[h] = [json.loads(l) for l in gzip.open(of, "rt")]

    for h, of, jf in procs:
        while len(running) >= C.NCPU:
            reap(False)
            import time
            time.sleep(0.05)
        running.append((subprocess.Popen([C.PY, "-m", "harness.run_rec", jf, of], cwd=scratch, env=C.worker_env(),
                                         stdout=subprocess.DEVNULL, stderr=subprocess.DEVNULL), h, of))
    while running:
        reap(True)
    # the reference of a run: the same run alone in a fresh process, called in the same form (a yaml call imposes the settings'
    # horizon, so there the reference is the yaml call with that one simulation)
    solo = {}
    for r in RT:
        if ((r, "direct"),) in outs:
            rec0 = outs[((r, "direct"),)][0]
            solo[(r, "direct")] = digest(rec0)
            solo[(r, "country")] = digest(rec0, joined=True)
        if ((r, "yamlfirst"),) in outs:
            solo[(r, "yaml")] = digest(outs[((r, "yamlfirst"),)][0], joined=True)
    nruns = 0
    for h, recs in sorted(outs.items()):
        names = [r for r, _ in h]
        for (i, r, j), rec in zip(targets[h], recs):
            nruns += 1
            if rec.get("recorder_error"):
                out.machinery.append("recorder: " + rec["recorder_error"])
                continue
            if rec.get("skipped"):
                continue  # not run because an earlier simulation of the same yaml call failed
            form = "yaml" if j.startswith("yaml") else j
            # the tables saved for a country that ran earlier in the same by-country call are those of that run alone
            for occ, tabs in (rec.get("saved_tables_of_others") or {}).items():
                prev = [r0 for r0 in names[:i] if RT[r0]["cc"] == occ]
                ref0 = solo.get((prev[-1], "direct")) if prev else None
                if ref0 is not None and isinstance(ref0[1].get("saved_tables"), dict) and tabs != ref0[1]["saved_tables"]:
                    diff_t = sorted(k_ for k_ in set(tabs) | set(ref0[1]["saved_tables"]) if tabs.get(k_) != ref0[1]["saved_tables"].get(k_))
                    out.violation("HistoryIndependent:%s-before-%s:same-call:saved-tables" % (prev[-1], r),
                                  "the tables saved for %s differ from those of the same run alone once %s has run in the same call: %s" % (occ, RT[r]["cc"], diff_t[:5]),
                                  dict(history=[list(x) for x in h], differing_tables=diff_t))
            rec = {k_: v_ for k_, v_ in rec.items() if k_ != "saved_tables_of_others"}
            dg, d = digest(rec, joined=form != "direct")
            ref = solo.get((r, form))
            if ref is not None and dg != ref[0]:
                diff = [k for k in d if json.dumps(d[k], sort_keys=True) != json.dumps(ref[1].get(k), sort_keys=True)]
                out.violation("HistoryIndependent:%s-after-%s%s" % (r, "+".join(names[:i]) or "nothing", {"country": ":same-call", "yaml": ":yaml-call"}.get(form, "")),
                              "run %s at position %d of history %s (%s) differs from the same run alone in: %s"
                              % (r, i + 1, names, [x[1] for x in h], diff[:6]),
                              dict(history=[list(x) for x in h], position=i, differing_fields=diff))
        out.distinct.add(h)
    # by design a yaml call imposes the settings' horizon on every simulation: a simulation that names its own horizon gives the
    # result of the settings' horizon (r_arg_own48 through the front end = r_arg_base through the front end)
    if ("r_arg_own48", "yaml") in solo and ("r_arg_base", "yaml") in solo:
        a, b = solo[("r_arg_own48", "yaml")][1], solo[("r_arg_base", "yaml")][1]
        if json.dumps(a.get("lps"), sort_keys=True) != json.dumps(b.get("lps"), sort_keys=True):
            out.violation("SettingsHorizonWins:yaml-call", "a simulation with its own NMONTHS run through the yaml front end differs from the same "
                          "simulation without it (the settings' horizon is documented to apply to every simulation)", dict(run="r_arg_own48"))
    expected_fail = [h for h, recs in outs.items() for (i, r, j), rec in zip(targets[h], recs) if r == "r_bad" and rec.get("ok")]
    if expected_fail:
        out.machinery.append("the failing run type unexpectedly succeeded")
    out.traces = len(outs)
    out.evaluations = nruns
    out.distinct_n = len(outs)
    out.sample(dict(history=[list(x) for x in hists[len(hists) // 2]], run_types={k: (v["cc"], v["preset"]) for k, v in RT.items()}))
    out.assumptions = ["'identical' is bitwise equality of the recorded observation (JSON of all floats) except wall time and traceback text",
                       "histories are bounded in length and drawn from five run types that differ in population, nutrition profile, horizon, "
                       "scale and resilient foods; one run type fails after option parsing"]
    return out.finish()


def run_c15(pid, tier):
    out = C.Outcome(pid, tier)
    out.rule = ("aggregate cases enumerated by TLC from Process.tla: every selection list of length <= 2 over {x, !x} for a 6-country "
                "universe (incl. one country missing from the world map and one with a different map code) x ratio assignments over {0, 1/2, 1, 3/2}; each replayed through the real run_model_no_trade with the per-country "
                "optimiser stubbed; distinct = distinct (list, assignment)")
    cases = [c for c in emit(out, tier) if c["k"] == "Aggregate"]
    if not cases:
        out.machinery.append("no aggregate cases emitted")
        return out.finish()
    wd = C.workdir()
    cf, rf = os.path.join(wd, "agg_cases.ndjson"), os.path.join(wd, "agg_rep.json")
    n = C.NCPU
    procs = []
    for i in range(n):
        with open(cf + str(i), "w") as fh:
            for c in cases[i::n]:
                fh.write(json.dumps(c) + "\n")
        extra = []
        if i == 0:
            # (one aggregate with nothing stubbed: two small countries and the two Koreas, whose names share their last word)
            json.dump(dict(options=presets.all_presets()["net_nuclear_winter"], countries=["DJI", "MUS", "KOR", "PRK"]), open(cf + "_real.json", "w"))
            extra = [cf + "_real.json"]
        procs.append(subprocess.Popen([C.PY, "-m", "harness.agg_replay", cf + str(i), rf + str(i)] + extra, cwd=C.scratch_repo(), env=C.worker_env(),
                                      stdout=subprocess.DEVNULL, stderr=subprocess.PIPE, text=True))
    tot = 0
    for i, p in enumerate(procs):
        _, e = p.communicate()
        if p.returncode != 0:
            out.machinery.append("aggregate replay failed: " + e[-1200:])
            continue
        rj = json.load(open(rf + str(i)))
        tot += rj["cases"]
        for m in rj["mismatches"]:
            out.violation(m["key"], "run_model_no_trade disagrees with Process!Aggregate: %s" % m["key"], m)
    out.traces = tot
    out.evaluations = tot
    out.distinct_n = tot
    out.sample(dict(aggregate_case=cases[len(cases) // 2]))
    out.assumptions = ["run_optimizer_for_country is stubbed by the harness (returns the prescribed fraction), the country table is the real rows of "
                       "ARG, DJI, NZL, USA, MUS, SWT with prescribed populations; a list mixing x and !x runs exactly the plain entries; one aggregate "
                       "(DJI, MUS, KOR, PRK, nuclear winter) is run with nothing stubbed, results returned and every table saved"]
    return out.finish()


def run(pid, tier):
    return run_c14(pid, tier) if pid == "C14" else run_c15(pid, tier)
