"""C08 / C09: Supply.tla — calendar facts checked by TLC, per-month recipes replayed against the real supply classes."""
import json
import os
import subprocess

from . import common as C


def run(pid, tier):
    out = C.Outcome(pid, tier)
    out.rule = ("Supply.tla: calendar / block / ramp facts checked by TLC for every horizon 48..120 and delay 0..6; the per-month recipes "
                "(calendar month, model year, relocation, expansion / greenhouse / SCP / sugar / seaweed stages, demand on-off) of every "
                "(horizon, configuration) are evaluated on seeded generated inputs (incl. baselines of 1e-4..1e-2 bn kcal) and compared "
                "entry by entry (1e-9) with the real OutdoorCrops, Greenhouses, Seafood, MeatAndDairy (grass), FeedAndBiofuels, MethaneSCP, "
                "CellulosicSugar, Seaweed, StoredFood; distinct = (recipe, input set, series)")
    cfg = "SupplyEmit.cfg" if tier == "quick" else "SupplyEmitFull.cfg"
    r = C.run_tlc("Supply", cfg=cfg, workers=1, timeout=3000, heap="6g")
    out.tlc_runs.append(dict(name="Supply", **r.summary()))
    if r.violated or (r.error and "No error has been found" not in r.out):
        if "Assumption" in r.out:
            out.violation("spec:assumption", "a calendar fact of Supply.tla fails", r.out[-2000:])
        else:
            out.machinery.append(r.error or "Supply.tla failed")
    recs = [json.loads(json.loads(l)) for l in r.out.splitlines() if l.startswith('"{')]
    recipes = [x for x in recs if x["k"] == "Recipe"]
    if not recipes:
        out.machinery.append("Supply.tla emitted no recipes")
        return out.finish()
    wd = C.workdir()
    n = C.NCPU
    n_inputs = 6 if tier == "quick" else 12
    procs = []
    others = [x for x in recs if x["k"] != "Recipe"]
    # one process evaluates recipes of the same horizon with different delays one after the other (state that a supply class keeps
    # from an earlier run of the process then shows as a mismatch): recipes are ordered so that the delays vary fastest and each
    # horizon is cut into contiguous blocks
    def order(x):
        c = x["cfg"]
        return (x["N"], c["reloc"], c["expand"], c.get("feedMonths", 0), c.get("bioMonths", 0), c.get("swDelay", 0), c.get("indDelay", 0), c["gh"], c.get("ghDelay", 0))
    by_n = {}
    for x in sorted(recipes, key=lambda x: (x["N"], x["cfg"]["gh"] is False, order(x))):
        by_n.setdefault(x["N"], []).append(x)
    per = max(1, n // len(by_n))
    blocks = []
    for N, xs in sorted(by_n.items()):
        size = -(-len(xs) // per)
        blocks += [xs[j:j + size] for j in range(0, len(xs), size)]
    n = len(blocks)
    for i in range(n):
        f = os.path.join(wd, "supply_%d.ndjson" % i)
        with open(f, "w") as fh:
            for x in (others if i == 0 else [x for x in others if x["k"] == "Stock"]) + blocks[i]:
                fh.write(json.dumps(x) + "\n")
        procs.append(subprocess.Popen([C.PY, "-m", "harness.supply_replay", f, f + ".rep", str(n_inputs), str(C.seed() * 100 + i)],
                                      cwd=C.scratch_repo(), env=C.worker_env(), stdout=subprocess.DEVNULL, stderr=subprocess.PIPE, text=True))
    tot = dict(recipes=0, runs=0, series_checked=0, y1_cases=0)
    seen = set()
    for i, p in enumerate(procs):
        _, e = p.communicate()
        if p.returncode != 0:
            out.machinery.append("supply replay failed: " + e[-1500:])
            continue
        rj = json.load(open(os.path.join(wd, "supply_%d.ndjson.rep" % i)))
        for k in tot:
            tot[k] += rj[k]
        for m in rj["mismatches"]:
            if m["key"].startswith(pid + ":") or m["key"].startswith("exception"):
                if (m["key"], json.dumps(m.get("where"))) in seen:
                    continue
                seen.add((m["key"], json.dumps(m.get("where"))))
                out.violation(m["key"], "real supply classes disagree with Supply.tla: %s %s" % (m["key"], m.get("where", "")), m)
    out.traces = tot["runs"]
    out.evaluations = tot["series_checked"] + tot["y1_cases"]
    out.distinct_n = tot["series_checked"]
    out.extra.update(tot)
    out.extra["calendar_law_instances"] = 7 * 120 * 3 + 7 * 120 * 7
    out.sample(dict(recipe=dict(N=recipes[0]["N"], cfg=recipes[0]["cfg"], month_0=recipes[0]["months"][0], month_11=recipes[0]["months"][11])))
    out.assumptions = ["the remaining arithmetic after the index recipe (a fixed product of looked-up inputs) is done in the replayer in floats",
                       "named deviation ScpDelayTwicePlus12 (pinned by tests/test_methane_scp.py)",
                       "generated inputs: seasonality vectors summing to 1, ratios in [0, 1.3], waste in [0, 30] %, baselines over 7 orders of magnitude"]
    return out.finish()
