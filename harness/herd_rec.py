"""Recorder for Trace_Herd: runs animal_populations.main() on real country rows with generated feed / grass
series and writes one trace per run.  Runs with cwd = scratch copy of the repository (never /repo).

The only instrumentation is a wrapper installed here around AnimalSpecies.feed_the_species (logs the call's
inputs and outputs at its return); everything else is read from the lists main() returns.  Quantities are
logged as they are (head, billion kcal, hours); meat per head is given to main() by this harness and logged in
kcal.  No arithmetic is done on logged quantities.
"""
import contextlib
import io
import json
import os
import sys

import numpy as np

sys.path.insert(0, os.getcwd())
from harness.limbs import num  # noqa: E402

# meat kcal per head by class, as ScenarioRunner would derive them for a typical country (inputs of main())
KCAL_HEAD = {
    "KCALS_PER_CHICKEN": 1.65 * 1525,
    "KCALS_PER_PIG": 86 * 3590,
    "KCALS_PER_SMALL_ANIMAL": 2.36 * 1525,
    "KCALS_PER_MEDIUM_ANIMAL": 24.6 * 3590,
    "KCALS_PER_LARGE_ANIMAL": 269.7 * 2750,
}


def meat_class(animal_type, size):
    """Independent statement of the class map: chicken | pig | small | medium | large."""
    if animal_type == "chicken":
        return "KCALS_PER_CHICKEN"
    if animal_type == "pig":
        return "KCALS_PER_PIG"
    return {"small": "KCALS_PER_SMALL_ANIMAL", "medium": "KCALS_PER_MEDIUM_ANIMAL",
            "large": "KCALS_PER_LARGE_ANIMAL"}[size]


def food_series(k):
    from src.food_system.food import Food
    n = len(k)
    return Food(kcals=np.array(k, dtype=float), fat=np.zeros(n), protein=np.zeros(n),
                kcals_units="billion kcals each month", fat_units="thousand tons each month",
                protein_units="thousand tons each month")


def series(kind, n, scale, rng):
    if kind == "zero":
        return np.zeros(n)
    if kind == "ample":
        return np.full(n, scale * 50.0 + 1.0)
    if kind == "partial":
        return np.full(n, scale * 0.3)
    if kind == "ramp":
        return np.linspace(0.0, 1.5 * scale, n)
    if kind == "drop":
        return np.concatenate([np.full(n // 3, 2.0 * scale), np.full(n - n // 3, 0.05 * scale)])
    if kind == "stop":   # (plenty, then nothing at all: with no grass either, a month in which nothing is on offer follows months of plenty)
        return np.concatenate([np.full(n // 3, 2.0 * scale), np.zeros(n - n // 3)])
    if kind == "rand":
        return rng.uniform(0, 1.3 * scale, n)
    raise ValueError(kind)


def run_job(job, attrs_csv):
    from src.food_system import animal_populations as ap
    from src.food_system.food import Food

    cc, strat, fk, gk, n, sd = job["cc"], job["strategy"], job["feed"], job["grass"], job["months"], job["seed"]
    Food.conversions.set_nutrition_requirements(2100, 47, 51, False, False, 1e7)
    kd = {k: v / 1e9 for k, v in KCAL_HEAD.items()}
    rng = np.random.default_rng(sd)
    log = []
    orig = ap.AnimalSpecies.feed_the_species

    def wrapped(self, grass_input, feed_input, is_ruminant=False):
        pre = (float(self.current_population), float(self.NE_balance.kcals), float(grass_input.kcals),
               float(feed_input.kcals))
        try:
            return orig(self, grass_input, feed_input, is_ruminant)
        finally:
            log.append((self.animal_type, pre, float(grass_input.kcals), float(feed_input.kcals),
                        float(self.population_fed)))

    # scale: what the herds eat in the first month when everything is ample
    with contextlib.redirect_stdout(io.StringIO()):
        _, fu0, gu0 = ap.main(cc, food_series(np.full(2, 1e9)), food_series(np.zeros(2)), strat, None, 0, kd)
        _, fu1, gu1 = ap.main(cc, food_series(np.zeros(2)), food_series(np.full(2, 1e9)), strat, None, 0, kd)
    fscale = float(fu0.kcals[0])
    gscale = float(gu1.kcals[0])
    feed = series(fk, n, fscale, rng)
    grass = series(gk, n, gscale, rng)
    ap.AnimalSpecies.feed_the_species = wrapped
    o_feed_animals = ap.AnimalPopulation.feed_animals

    def w_feed_animals(animal_list, ruminants, available_feed, available_grass):
        log.append("MONTH")  # month boundary: the calls that follow belong to one month's feeding
        return o_feed_animals(animal_list, ruminants, available_feed, available_grass)

    ap.AnimalPopulation.feed_animals = w_feed_animals
    # every fifth run starts one herd from a configured head count (half as large again as the table's) instead of the table's
    import pandas as pd
    stock0 = pd.read_csv("data/no_food_trade/animal_feed_data/FAOSTAT_head_and_slaughter.csv").set_index("iso3")
    srow0 = stock0.loc["SWZ" if cc == "SWT" and "SWT" not in stock0.index else cc]
    custom = None
    if job.get("tid", 0) % 5 == 0:
        for sp_ in ("pig", "chicken", "milk_sheep", "meat_cattle"):
            if float(srow0.get(sp_ + "_head", 0)) > 0 and not (cc == "IND" and sp_ == "meat_cattle"):
                custom = {sp_ + "_head_start": 1.5 * float(srow0[sp_ + "_head"])}
                break
    try:
        with contextlib.redirect_stdout(io.StringIO()):
            animals, feed_used, grass_used = ap.main(cc, food_series(feed.copy()), food_series(grass.copy()),
                                                    strat, custom, 0, kd)
    finally:
        ap.AnimalSpecies.feed_the_species = orig
        ap.AnimalPopulation.feed_animals = o_feed_animals
    months_log = []
    for item in log:
        if item == "MONTH":
            months_log.append([])
        elif months_log:
            months_log[-1].append(item)
    attr = {}
    pop0 = {}
    import pandas as pd
    opt_csv = pd.read_csv("data/no_food_trade/animal_feed_data/species_options.csv")
    opt_csv = opt_csv[opt_csv["scenario"] == strat].set_index("animal")
    # the livestock-unit factor of a species is the one of the country's FAO region (FAO_country_region_mappings.csv; Eswatini is
    # listed under SWZ; a code that is not listed counts as "Other"), read from regional_conversion_factors.csv - not what the
    # simulated object says about itself
    # (a code listed twice - the USA is, as "Caribbean" and as "North America" - takes its first row, see DESIGN 7.1 N6)
    region_of = pd.read_csv("data/no_food_trade/animal_feed_data/FAO_country_region_mappings.csv").drop_duplicates("alpha3").set_index("alpha3")["FAO-region-EK"].to_dict()
    regional = pd.read_csv("data/no_food_trade/animal_feed_data/regional_conversion_factors.csv").set_index("animal")
    region = region_of.get("SWZ" if cc == "SWT" else cc, "Other")
    for a in animals:
        row = attrs_csv.loc[a.animal_type]
        # target size and baseline slaughter as the requested strategy configures them (species_options.csv), applied to the
        # herd's own initial head count and initial slaughter - not what the simulated object says about itself
        orow = opt_csv.loc[a.animal_type]
        # (the starting head count the run is configured with: the table's, or the custom one)
        head_cfg = float((custom or {}).get(a.animal_type + "_head_start", srow0[a.animal_type + "_head"]))
        target_cfg = float(orow["target_population_fraction"]) * head_cfg
        base_sl_cfg = float(a.initial_slaughter) * float(orow["change_in_slaughter_rate"])
        attr[a.animal_type] = dict(
            milk=a.animal_type.startswith("milk_"),
            group=a.animal_type.replace("milk_", "").replace("meat_", ""),
            size=str(row["animal size"]),
            ruminant=str(row["digestion type"]) == "ruminant",
            hours=num(float(row["animal_slaughter_hours"])),
            target=num(target_cfg),
            baseSl=num(base_sl_cfg),
            targetObj=num(a.target_population_head),
            baseSlObj=num(a.baseline_slaughter),
            lsu=num(float(row["LSU"])),
            factor=num(float(regional[region].to_dict()[a.animal_species])),
            factorObj=num(a.LSU_factor),
            kcalHead=num(KCAL_HEAD[meat_class(a.animal_type, str(row["animal size"]))]),
        )
        pop0[a.animal_type] = num(a.population[0])
    # the herds the stock table lists with animals in them (Eswatini is SWZ there)
    stock = pd.read_csv("data/no_food_trade/animal_feed_data/FAOSTAT_head_and_slaughter.csv").set_index("iso3")
    srow = stock.loc["SWZ" if cc == "SWT" and "SWT" not in stock.index else cc]
    listed = {c_[:-len("_head")] for c_ in stock.columns if c_.endswith("_head") and float(srow[c_]) > 0}
    if cc == "IND":
        listed.discard("meat_cattle")   # (the one documented exception: India's beef herd is left out on purpose, see create_animal_objects)
    ev = []
    while len(months_log) < n:
        months_log.append([])
    for m in range(n):
        ev.append(dict(ev="BeginMonth", grass=num(grass[m]), feed=num(feed[m]), missing=len(listed - {a.animal_type for a in animals})))
        for (typ, pre, gout, fout, fedn) in months_log[m]:
            ev.append(dict(ev="Feed", s=typ, pop=num(pre[0]), need=num(pre[1]), grassIn=num(pre[2]),
                           feedIn=num(pre[3]), grassOut=num(gout), feedOut=num(fout), fed=num(fedn)))
        ev.append(dict(ev="EndFeeding", grassUsed=num(grass_used.kcals[m]), feedUsed=num(feed_used.kcals[m])))
        for a in animals:
            milk = a.animal_function == "milk"
            ev.append(dict(ev="Births", s=a.animal_type, births=num(a.births_animals_month[m]),
                           tb=num(a.transfer_births[m] if milk else 0.0),
                           ret=num(a.retiring_milk_animals[m] if milk else 0.0)))
        for a in animals:
            milk = a.animal_function == "milk"
            ev.append(dict(ev="Slaughter", s=a.animal_type,
                           transferIn=num(0.0 if milk else a.transfer_population[m]),
                           od=num(a.other_death_causes_other_than_starving[m + 1]),
                           sl=num(a.slaughter[m + 1])))
        for a in animals:
            ev.append(dict(ev="Close", s=a.animal_type,
                           starvingPre=num(a.population_starving_pre_slaughter[m + 1]),
                           starve=num(a.other_death_starving[m + 1]),
                           hkH=num(a.homekill_healthy_this_month[m + 1]), hkS=num(a.homekill_starving_this_month[m + 1]),
                           end=num(a.population[m + 1])))
        ev.append(dict(ev="EndMonth"))
    return dict(hdr=dict(job=job, attr=attr, pop0=pop0, species=[a.animal_type for a in animals],
                         fscale=fscale, gscale=gscale), ev=ev)


def main():
    import pandas as pd

    jobs = json.load(open(sys.argv[1]))
    out = sys.argv[2]
    attrs_csv = pd.read_csv("data/no_food_trade/animal_feed_data/species_attributes.csv", index_col="animal")
    with open(out, "w") as fh:
        for job in jobs:
            try:
                tr = run_job(job, attrs_csv)
                tr["tid"] = job["tid"]
            except BaseException as e:  # an exception is itself an observation
                import traceback
                tr = dict(tid=job["tid"], hdr=dict(job=job, error=repr(e)[:300], tb=traceback.format_exc()[-1500:]),
                          ev=[])
            fh.write(json.dumps(tr) + "\n")


if __name__ == "__main__":
    main()
