"""The documented presets: the 6 simulations of scenarios/argentina.yaml (= eu_countries.yaml; baseline_USA.yaml is the
first of them), 6 manuscript simulations of plot_manuscript_figures.py expressed with the dispatcher's option names,
single-option variations, and the global (world aggregate) forms of each."""
import copy
import os

import yaml

from . import common as C


def shipped():
    cfg = yaml.safe_load(open(os.path.join(C.REPO, "scenarios", "argentina.yaml")))
    out = {}
    for name, s in cfg["simulations"].items():
        s = dict(s)
        s["NMONTHS"] = 120
        out[name.replace("argentina_", "")] = s
    return out


def manuscript(P):
    base = dict(P["net_nuclear_winter"])
    m1 = dict(base)
    m1.update(scenario="no_resilient_foods", waste="baseline_in_country", shutoff="continued_after_10_percent_fed",
              meat_strategy="baseline_breeding", ratio_stocks_untouched="no_stored_between_years", nutrition="catastrophe",
              intake_constraints="enabled")
    m2 = dict(m1)
    m2.update(waste="tripled_prices_in_country", shutoff="long_delayed_shutoff_after_10_percent_fed")
    m3 = dict(m2)
    m3.update(ratio_stocks_untouched="zero")
    m4 = dict(m3)
    m4.update(meat_strategy="feed_only_ruminants", shutoff="long_delayed_shutoff")
    m5 = dict(m4)
    m5.update(scenario="all_resilient_foods")
    m6 = dict(m1)
    m6.update(ratio_stocks_untouched="baseline_no_stored_between_years")
    return dict(ms_worst=m1, ms_simple=m2, ms_simple_ration=m3, ms_example=m4, ms_example_res=m5, ms_worst_buf=m6)


def variations(P):
    """single-option variations of shipped presets (each documented option value appears at least once)."""
    V = {}
    nw = P["net_nuclear_winter"]
    for sc in ("seaweed", "methane_scp", "cellulosic_sugar", "relocated_crops", "greenhouse", "industrial_foods"):
        V["nw_" + sc] = dict(nw, scenario=sc)
    for sh in ("immediate", "one_month_delayed_shutoff", "short_delayed_shutoff", "long_delayed_shutoff", "continued"):
        V["nw_shutoff_" + sh] = dict(nw, shutoff=sh)
    V["nw_no_stored_food"] = dict(nw, stored_food="zero")
    V["nw_baseline_nostore"] = dict(nw, ratio_stocks_untouched="baseline_no_stored_between_years")
    V["nw_dont_eat_culled"] = dict(nw, cull="dont_eat_culled")
    V["nw_intake_disabled"] = dict(nw, intake_constraints="disabled_for_humans")
    V["nw_waste_tripled"] = dict(nw, waste="tripled_prices_in_country")
    V["nw_fish_zero"] = dict(nw, fish="zero")
    V["nw_no_seasonality"] = dict(nw, seasonality="no_seasonality")
    V["nw_crops_die"] = dict(nw, crop_disruption="all_crops_die_instantly", grasses="all_crops_die_instantly")
    V["res_shutoff_continued"] = dict(P["net_nuclear_resilient"], shutoff="continued")
    V["res_intake_disabled"] = dict(P["net_nuclear_resilient"], intake_constraints="disabled_for_humans")
    V["nw_nostore_continued"] = dict(nw, ratio_stocks_untouched="no_stored_between_years", shutoff="continued")
    V["nw_zero_demand"] = dict(nw, feed_kcals=0, biofuel_kcals=0)
    V["nw_T50"] = dict(nw, MINIMUM_PERCENT_FED_BEFORE_NONHUMAN_CONSUMPTION_ALLOWED=50)
    V["nw_large_animal_350kg"] = dict(nw, kg_meat_per_large_animal=350)
    V["base_72m"] = dict(P["net_baseline"], NMONTHS=72)
    V["nw_48m"] = dict(nw, NMONTHS=48)
    V["res_84m"] = dict(P["net_nuclear_resilient"], NMONTHS=84)
    return V


def all_presets():
    P = shipped()
    P.update(manuscript(P))
    return P


def to_global(s):
    g = copy.deepcopy(s)
    g["scale"] = "global"
    g["seasonality"] = {"country": "baseline_globally" if s.get("crop_disruption") == "zero" else "nuclear_winter_globally",
                        "no_seasonality": "no_seasonality"}.get(s["seasonality"], s["seasonality"])
    g["grasses"] = {"country_nuclear_winter": "global_nuclear_winter"}.get(s["grasses"], s["grasses"])
    g["crop_disruption"] = {"country_nuclear_winter": "global_nuclear_winter"}.get(s["crop_disruption"], s["crop_disruption"])
    g["waste"] = s["waste"].replace("_in_country", "_globally")
    return g


# (SGP: the only country without crop land; MUS: an island state where the feed round can yield less meat than no feed;
#  URY: a meat exporter where the final feed top-up meets a binding, non-zero feed demand; MNG: herds that live on grass, the
#  feed round's meat is re-timed; BTN: no feed or biofuel demand at all)
QUICK_CC = ["ARG", "USA", "IND", "CHN", "NZL", "DJI", "LSO", "EST", "SLV", "ECU", "JPN", "ZAF", "SGP", "MUS", "URY", "MNG", "BTN", "AUS", "SWT", "BRN", "WOR"]
QUICK_PRESETS = ["net_baseline", "net_nuclear_winter", "net_nuclear_resilient", "net_nuclear_resilient_more_area",
                 "ms_worst", "ms_simple_ration", "ms_example_res"]


def jobs(tier, seed=0):
    import csv
    P = all_presets()
    V = variations(P)
    out = []
    if tier == "quick":
        for cc in QUICK_CC:
            for p in QUICK_PRESETS:
                out.append((cc, p, P[p]))
        # a rotating slice of the variations on three countries
        vn = sorted(V)
        for i, cc in enumerate(["ARG", "IND", "EST", "DJI"]):
            for k in range(3):
                name = vn[(seed + 3 * i + k) % len(vn)]
                out.append((cc, name, V[name]))
    else:
        with open(os.path.join(C.REPO, "data/no_food_trade/computer_readable_combined.csv")) as fh:
            ccs = [r["iso3"] for r in csv.DictReader(fh)] + ["WOR"]
        for cc in ccs:
            for p in P:
                out.append((cc, p, P[p]))
        vn = sorted(V)
        for i, cc in enumerate(ccs):
            for k in range(4):
                name = vn[(seed + 4 * i + k) % len(vn)]
                out.append((cc, name, V[name]))
    res = []
    for cc, name, s in out:
        s = copy.deepcopy(s)
        if cc == "WOR":
            s = to_global(s)
        res.append(dict(cc=cc, preset=name, options=s))
    # histories: the same title is run twice with different options (longer horizon first), so that every table of the
    # second run is written over one that already exists
    res.append(dict(cc="USA", preset="nw_large_animal_350kg", options=copy.deepcopy(V["nw_large_animal_350kg"])))
    # every documented shut-off schedule appears at least once whatever the seed
    # (PAK under the short schedule: the one cell found where the re-timing of the feed round's meat really moves meat between months)
    for cc, name in (("ARG", "nw_shutoff_one_month_delayed_shutoff"), ("EST", "nw_shutoff_short_delayed_shutoff"), ("ZAF", "nw_shutoff_immediate"),
                     ("PAK", "nw_shutoff_short_delayed_shutoff"), ("JPN", "nw_shutoff_continued"), ("ARG", "nw_shutoff_continued")):
        res.append(dict(cc=cc, preset=name, options=copy.deepcopy(V[name])))
    # every resilient food with the human intake caps switched off
    res.append(dict(cc="DJI", preset="res_intake_disabled", options=copy.deepcopy(V["res_intake_disabled"])))
    # ... and with feed and biofuel demand that never stops (the industrial foods then meet a feed charge)
    res.append(dict(cc="NZL", preset="res_shutoff_continued", options=copy.deepcopy(V["res_shutoff_continued"])))
    # no storage between years with demand that never stops, for countries that reach the threshold without feed
    for cc in ("BRA", "SEN"):
        res.append(dict(cc=cc, preset="nw_nostore_continued", options=copy.deepcopy(V["nw_nostore_continued"])))
    # cells in which the fed herds give less meat than the unfed ones (in one month: PAK; over the horizon: LSO; MNG: meat re-timed
    # although the unfed round is never ahead)
    harsh = dict(meat_strategy="reduce_breeding", grasses="country_nuclear_winter", crop_disruption="country_nuclear_winter", shutoff="long_delayed_shutoff")
    res.append(dict(cc="PAK", preset="base_reduce_nwgrass_60m", options=dict(copy.deepcopy(P["net_baseline"]), meat_strategy="reduce_breeding",
                                                                             grasses="country_nuclear_winter", NMONTHS=60)))
    for cc in ("LSO", "MNG"):
        res.append(dict(cc=cc, preset="base_harsh_72m", options=dict(copy.deepcopy(P["net_baseline"]), NMONTHS=72, **harsh)))
    res.append(dict(cc="MNG", preset="nw_long_delayed_shutoff", options=dict(copy.deepcopy(P["net_nuclear_winter"]), shutoff="long_delayed_shutoff")))
    # a country without pasture under a delayed shut-off (after it the herds get neither feed nor grass)
    res.append(dict(cc="BGD", preset="nw_shutoff_long_delayed_shutoff", options=copy.deepcopy(V["nw_shutoff_long_delayed_shutoff"])))
    # seaweed as the only resilient food, demand that never stops, a country well above the threshold without feed
    res.append(dict(cc="BRA", preset="nw_seaweed", options=copy.deepcopy(V["nw_seaweed"])))
    # an explicit threshold under a schedule that has none of its own
    res.append(dict(cc="ARG", preset="nw_T50", options=copy.deepcopy(V["nw_T50"])))
    # the fourth stock regime (a buffer kept back and nothing carried between years), and a run without any initial stock
    res.append(dict(cc="USA", preset="nw_baseline_nostore", options=copy.deepcopy(V["nw_baseline_nostore"])))
    res.append(dict(cc="ARG", preset="nw_no_stored_food", options=copy.deepcopy(V["nw_no_stored_food"])))
    # a country whose table row has dairy herds but no national milk figure
    res.append(dict(cc="CYP", preset="net_nuclear_winter", options=copy.deepcopy(P["net_nuclear_winter"])))
    # a short horizon that ends while crops are still depressed, with demand alive in the last month
    # (... USA, DNK: no harvest in the last two months; ARG: a harvest in both)
    for cc in ("USA", "DNK", "ARG"):
        res.append(dict(cc=cc, preset="nw_48m", options=copy.deepcopy(V["nw_48m"])))
    # feed and biofuel demand overridden to nothing
    res.append(dict(cc="ARG", preset="nw_zero_demand", options=copy.deepcopy(V["nw_zero_demand"])))
    # a run whose title contains a dot (the saved tables are named after the title)
    res.append(dict(cc="DJI", preset="nw_title_x0.5", options=copy.deepcopy(P["net_nuclear_winter"])))
    # custom herd sizes (a numeric override that every round's herd simulation must honour)
    res.append(dict(cc="ARG", preset="net_baseline_custom_herd", options=dict(copy.deepcopy(P["net_baseline"]), meat_cattle_head=5000000, pig_head=100000)))
    # an explicit threshold together with a shut-off schedule that carries its own default threshold
    res.append(dict(cc="ECU", preset="ms_worst_T60", options=dict(copy.deepcopy(P["ms_worst"]), MINIMUM_PERCENT_FED_BEFORE_NONHUMAN_CONSUMPTION_ALLOWED=60)))
    # ... the same for the world aggregate
    res.append(dict(cc="WOR", preset="ms_worst_T50", options=to_global(dict(copy.deepcopy(P["ms_worst"]), MINIMUM_PERCENT_FED_BEFORE_NONHUMAN_CONSUMPTION_ALLOWED=50))))
    # ... and a run that follows, in the same process, a run of the same country, strategy and horizon with other grass and crops
    res.append(dict(cc="USA", preset="nw_crops_die_after_nw", options=copy.deepcopy(V["nw_crops_die"]), prelude=copy.deepcopy(P["net_nuclear_winter"])))
    # output options are not inputs: the per-country figures switched on, and a world run that is given no title
    res.append(dict(cc="DJI", preset="nw_figures_on", options=copy.deepcopy(P["net_nuclear_winter"]), figures=True))
    res.append(dict(cc="NZL", preset="res_figures_on", options=copy.deepcopy(P["net_nuclear_resilient"]), figures=True))
    res.append(dict(cc="WOR", preset="nw_untitled", options=to_global(copy.deepcopy(P["net_nuclear_winter"])), untitled=True))
    if tier == "quick":
        # (quick tier only - the thorough tier has Armenia: a harvest of a few thousandths of a billion kcal a month)
        res.append(dict(cc="DJI", preset="nw_tiny_harvest", options=dict(copy.deepcopy(P["net_nuclear_winter"]), crop_kcals=2.3)))
    for cc, name in ([("DJI", "net_baseline"), ("LSO", "net_nuclear_winter")] if tier == "quick" else
                     [("DJI", "net_baseline"), ("LSO", "net_nuclear_winter"), ("NZL", "ms_worst"), ("EST", "net_nuclear_resilient")]):
        main = dict(copy.deepcopy(P[name]), NMONTHS=60)
        res.append(dict(cc=cc, preset=name + "_rerun", options=main, prelude=dict(copy.deepcopy(P[name]), NMONTHS=96, waste="zero")))
    return res
