"""C18: Handoff.tla — hand-off helpers on TLC-generated inputs and on every corpus run, validated by Trace_Handoff."""
import json
import os

from . import common as C
from . import corpus
from . import tracecheck
from .limbs import num

ORDER = ["fish", "meat", "dairy", "greenhouse", "outdoor_crops", "stored_food", "methane_scp", "cellulosic_sugar", "seaweed"]


def nums(xs):
    return [num(x) for x in xs]


def fill_events(avail, out, kd, pf1, T):
    """avail: dict with outdoor_immediate / outdoor_new_stored separate; the specification adds them (one Num Add in the
    emitter would be arithmetic on observed quantities, so both are passed and summed here as floats only for the
    documented 'outdoor crops = immediate + newly stored' convention)."""
    ev = []
    n = len(avail["fish"])
    for m in range(n):
        av = []
        for f in ORDER:
            if f == "outdoor_crops":
                av.append(num(avail["outdoor_immediate"][m] + avail["outdoor_new_stored"][m]))
            else:
                av.append(num(avail[f][m]))
        ev.append(dict(ev="FillMonth", m=m, avail=av, out=[num(out[f][m]) for f in ORDER], kd=num(kd), pf1=num(pf1), T=num(T)))
    return ev


def all_finite(x):
    import math
    if x is None or isinstance(x, (str, bool)):
        return True
    if isinstance(x, (int, float)):
        return math.isfinite(x)
    if isinstance(x, dict):
        return all(all_finite(v) for v in x.values())
    return all(all_finite(v) for v in x)


def run(pid, tier):
    out = C.Outcome(pid, tier)
    out.rule = ("all small integer inputs of MC_Handoff (FillMin 972, Retime 729, Bump 324 in the quick grid, 225 of them with charges within demand) run through the real "
                "Parameters helpers, and the hand-off objects of every corpus run, validated against the relations of Handoff.tla; "
                "distinct = distinct helper inputs + distinct (country, preset) hand-offs")
    r = C.run_tlc("MC_Handoff", cfg="MC_Handoff.cfg" if tier == "quick" else "MC_Handoff2.cfg", workers=1, timeout=1200)
    out.add_tlc("MC_Handoff", r)
    cases = [json.loads(json.loads(l)) for l in r.out.splitlines() if l.startswith('"{')]
    if not cases:
        out.machinery.append("MC_Handoff emitted no cases")
        return out.finish()
    wd = C.workdir()
    cf, of = os.path.join(wd, "handoff_cases.ndjson"), os.path.join(wd, "handoff_out.ndjson")
    with open(cf, "w") as fh:
        for c in cases:
            fh.write(json.dumps(c) + "\n")
    p = C.run_worker("harness.handoff_replay", [cf, of], C.scratch_repo(), timeout=3000)
    if p.returncode != 0:
        out.machinery.append("handoff replay failed: " + p.stderr[-1500:])
        return out.finish()
    traces = []
    for line in open(of):
        rec = json.loads(line)
        c = rec["case"]
        if "exc" in rec:
            # every generated input lies in the helpers' domain (non-negative series; for the bump, charges within their
            # demand): a valid hand-off exists for each, so a refusal (the helpers' own assertions firing) is a wrong hand-off
            out.extra["refused_" + c["k"]] = out.extra.get("refused_" + c["k"], 0) + 1
            out.violation("generated:%s:exception" % c["k"], "the %s helper raised %s on an input of its domain" % (c["k"], rec["exc"]), rec)
            continue
        if not all_finite(rec["out"]):
            # (not a number the specification can be asked about: a hand-off must be made of finite quantities)
            out.violation("generated:%s:FiniteQuantities" % c["k"], "the %s helper returned a non-finite quantity on generated input %s" % (c["k"], json.dumps(c)[:300]), rec)
            continue
        if c["k"] == "FillMin":
            ev = fill_events(c, rec["out"], c["kd"], c["pf1"], c["T"])
        elif c["k"] == "Retime":
            if rec["out"] is None:
                ev = [dict(ev="RetimeSkip", m1=nums(c["m1"]), m2=nums(c["m2"]))]
            else:
                ev = [dict(ev="Retime", m1=nums(c["m1"]), m2=nums(c["m2"]), r=nums(rec["out"]))]
        else:
            ev = [dict(ev="Bump", b=nums(c["b"]), f=nums(c["f"]), maxB=nums(c["maxB"]), maxF=nums(c["maxF"]),
                       b2=nums(rec["out"]["b2"]), f2=nums(rec["out"]["f2"]), dom=bool(c["dom"]))]
        traces.append(dict(hdr=dict(src="generated", kind=c["k"], case=c, out=rec["out"]), ev=ev))
    ngen = len(traces)
    for run_ in corpus.runs(tier):
        if run_.get("recorder_error"):
            continue
        ev = []
        fm, rt, bp = run_.get("fillmin"), run_.get("retime"), run_.get("bump")
        if not all_finite([fm and fm["out"], rt and rt["out"], bp and [bp["out_biofuel"], bp["out_feed"]]]):
            out.violation("corpus:FiniteQuantities", "%s %s: a hand-off contains a non-finite quantity" % (run_["job"]["cc"], run_["job"]["preset"]),
                          dict(job=run_["job"]))
            continue
        if fm:
            # the threshold the hand-off must add up to is the configured one (an explicit override, else the schedule's own: 10 for
            # the "after 10 percent fed" schedules, 100 otherwise) - not the one read back from the constants in force
            o = run_["job"].get("options") or {}
            tcfg = float(o.get("MINIMUM_PERCENT_FED_BEFORE_NONHUMAN_CONSUMPTION_ALLOWED", 10.0 if "after_10_percent_fed" in str(o.get("shutoff")) else 100.0))
            ev += fill_events(fm["avail"], fm["out"], fm["kd"], fm["pf1"], tcfg)
        if rt:
            if rt["out"] is None:
                ev.append(dict(ev="RetimeSkip", m1=nums(rt["meat1"]), m2=nums(rt["meat2"])))
            else:
                ev.append(dict(ev="Retime", m1=nums(rt["meat1"]), m2=nums(rt["meat2"]), r=nums(rt["out"])))
        by_round = {lp["round"]: lp for lp in run_.get("lps", [])}
        if 1 in by_round and 2 in by_round and by_round[1]["consts"]["add"]["meat"] and by_round[2]["consts"]["add"]["meat"]:
            # the monthly meat each of the two rounds was really given, whatever produced it
            ev.append(dict(ev="MeatGiven", m1=nums(by_round[1]["series"]["meat"]), g=nums(by_round[2]["series"]["meat"])))
        for lp in run_.get("lps", []):
            if lp["consts"]["add"]["meat"] and lp["consts"]["store"]:
                ev.append(dict(ev="Running", round=lp["round"], meat=nums(lp["series"]["meat"]), running=nums(lp["series"]["meat_running"])))
        if bp:
            a = bp["args"]
            ev.append(dict(ev="Bump", b=nums(a["biofuel"]), f=nums(a["feed"]), maxB=nums(a["max_biofuel"]), maxF=nums(a["max_feed"]),
                           b2=nums(bp["out_biofuel"]), f2=nums(bp["out_feed"]), dom=True))
        for rnd_ in (2, 3):
            if 1 in by_round and rnd_ in by_round and by_round[1]["consts"]["add"]["crops"] and by_round[rnd_]["consts"]["add"]["crops"]:
                ev.append(dict(ev="Harvest", c1=nums(by_round[1]["series"]["crops"]), c=nums(by_round[rnd_]["series"]["crops"])))
        if bp and 3 in by_round:
            s3 = by_round[3]["series"]
            ev.append(dict(ev="Charged", b2=nums(bp["out_biofuel"]), f2=nums(bp["out_feed"]), cb=nums(s3["biofuel"]), cf=nums(s3["feed"])))
        if ev:
            traces.append(dict(hdr=dict(src="corpus", cc=run_["job"]["cc"], preset=run_["job"]["preset"]), ev=ev))
    fails = tracecheck.validate("Trace_Handoff", "Trace_Handoff.cfg", traces, out)
    for (t, l, clause) in fails:
        h = t["hdr"]
        e = t["ev"][l - 1]
        if h["src"] == "generated":
            out.violation("generated:%s:%s" % (h["kind"], clause), "helper output violates %s on generated input %s" % (clause, json.dumps(h["case"])[:300]),
                          dict(case=h["case"], out=h["out"], clause=clause))
        else:
            out.violation("corpus:%s:%s" % (e["ev"], clause), "%s %s month %s" % (h["cc"], h["preset"], e.get("m", "-")),
                          dict(hdr=h, clause=clause, event_index=l))
    out.distinct_n = ngen + (len(traces) - ngen)
    out.extra["generated_cases"] = ngen
    out.extra["corpus_handoffs"] = len(traces) - ngen
    out.sample(dict(generated=traces[0]["hdr"]))
    out.sample(dict(generated=traces[ngen - 1]["hdr"]))
    out.assumptions = ["inputs to the helpers are non-negative (the property's domain)", "tolerance 1e-9 relative + 1e-6 absolute (kcal per person per day / billion kcal)"]
    return out.finish()
