"""C02 on full-size instances: candidate allocations for Ledger.tla.

For a recorded people-maximising round (the inputs the real Optimizer was given) this module states the admissible set of
Ledger.tla -- not the code's model -- as a linear programme of its own and lets CBC propose the allocation with the best
worst month.  The proposal is only a *candidate*: it becomes evidence when Trace_Ledger accepts it (every clause of the
specification holds for it) and its worst month beats the optimum the code reported.  TLC is the judge; the solver here is
a search heuristic, so an error in this file can lose a witness but cannot create a violation the specification does not
certify.

  solve(lp) -> dict(status, z, vars) with vars keyed like the recorder's (stored_food_to_humans, ...).
"""
import pulp

FOODS = ("stored_food", "crops_food", "methane_scp", "cellulosic_sugar", "seaweed")
HUMAN = {"stored_food": "stored_food_to_humans", "crops_food": "crops_food_to_humans", "methane_scp": "methane_scp_to_humans",
         "cellulosic_sugar": "cellulosic_sugar_to_humans", "seaweed": "seaweed_to_humans"}


def solve(lp, time_limit=120):
    """people-maximising round (kind H) or feed-maximising round (kind A)"""
    animals = lp["kind"] == "A"
    c = lp["consts"]
    s = lp["series"]
    n = c["NMONTHS"]
    add = c["add"]
    w = c["waste"]
    need = c["need"]
    sw = c["seaweed"]
    caps = c.get("caps") or {}

    def g(k):
        return 1.0 / (1.0 - w[k] / 100.0)

    prob = pulp.LpProblem("witness", pulp.LpMaximize)
    V = {}

    def var(name, m, on=True):
        v = pulp.LpVariable("%s_%d" % (name, m), lowBound=0) if on else 0.0
        V.setdefault(name, []).append(v)
        return v

    on = dict(stored_food=add["sf"], crops_food=add["crops"], methane_scp=add["scp"], cellulosic_sugar=add["cs"], seaweed=add["seaweed"])
    for m in range(n):
        for f in FOODS:
            var(HUMAN[f], m, on[f])
            var(f + "_feed", m, on[f])
            var(f + "_biofuel", m, on[f])
        var("meat_eaten", m, add["meat"])
        var("seaweed_wet_on_farm", m, add["seaweed"])
        var("used_area", m, add["seaweed"])
    z = pulp.LpVariable("z", lowBound=0)
    prob += z

    def draw(f, m, gk):
        return gk * V[HUMAN[f]][m] + V[f + "_feed"][m] + V[f + "_biofuel"][m]

    kc = sw["kcals"]
    pop_need = c["POP"] * c["KCALS_MONTHLY"] / 1e9
    mc = lp.get("min_cons") or {}
    PIN = dict(stored_food=("stored_food", 1.0), crops_food=("outdoor_crops", 1.0), methane_scp=("methane_scp", 1.0),
               cellulosic_sugar=("cellulosic_sugar", 1.0), seaweed=("seaweed", kc))
    score = 0.0
    band = 1e-4 if c["POP"] < 1e7 else 1e-5
    feed_prev = bio_prev = None
    sf_left = c["sf_initial"] if add["sf"] else 0.0
    crop_left = 0.0
    meat_sup = 0.0
    meat_use = 0.0
    for m in range(n):
        # stored food: never overdrawn; in the first-year-only regimes only months 0..12
        sf_left = sf_left - draw("stored_food", m, g("sf"))
        if add["sf"]:
            prob += sf_left >= 0
            if not c["store"] and m > 12:
                prob += draw("stored_food", m, g("sf")) == 0
        # crops: carried over, never overdrawn
        crop_left = crop_left + (s["crops"][m] if add["crops"] else 0.0) - draw("crops_food", m, g("crops"))
        if add["crops"]:
            prob += crop_left >= 0
        # meat: cumulative in the storage regimes, month by month otherwise
        if add["meat"]:
            if c["store"]:
                meat_sup += s["meat"][m]
                meat_use = meat_use + g("meat") * V["meat_eaten"][m]
                prob += meat_use <= meat_sup
            else:
                prob += g("meat") * V["meat_eaten"][m] <= s["meat"][m]
        if add["scp"]:
            prob += draw("methane_scp", m, g("scp")) <= s["scp"][m]
        if add["cs"]:
            prob += draw("cellulosic_sugar", m, g("cs")) <= s["cs"][m]
        if add["seaweed"]:
            wet, area = V["seaweed_wet_on_farm"][m], V["used_area"][m]
            prob += wet >= sw["initial"]
            prob += wet <= sw["max_density"] * s["built_area"][m]
            prob += area >= sw["initial_area"]
            prob += area <= s["built_area"][m]
            if m == 0:
                prob += wet == sw["initial"]
                prob += area == sw["initial_area"]
                for k in (HUMAN["seaweed"], "seaweed_feed", "seaweed_biofuel"):
                    prob += V[k][0] == 0
            else:
                prob += wet == (V["seaweed_wet_on_farm"][m - 1] * (1 + s["growth"][m] / 100.0) - draw("seaweed", m, g("seaweed"))
                                - (area - V["used_area"][m - 1]) * sw["min_density"] * sw["harvest_loss"] / 100.0)
        feed = (V["stored_food_feed"][m] + V["crops_food_feed"][m] + V["methane_scp_feed"][m] + V["cellulosic_sugar_feed"][m]
                + kc * V["seaweed_feed"][m])
        bio = (V["stored_food_biofuel"][m] + V["crops_food_biofuel"][m] + V["methane_scp_biofuel"][m] + V["cellulosic_sugar_biofuel"][m]
               + kc * V["seaweed_biofuel"][m])
        if animals:
            # ceilings, never rising, people pinned to the hand-off of the no-feed round
            if not isinstance(feed, float):
                prob += feed <= s["max_feed"][m]
                if feed_prev is not None:
                    prob += feed <= feed_prev
            if not isinstance(bio, float):
                prob += bio <= s["max_biofuel"][m]
                if bio_prev is not None:
                    prob += bio <= bio_prev
            feed_prev, bio_prev = feed, bio
            score = score + 2 * feed + bio
            for f, (key, k) in PIN.items():
                if on[f]:
                    # (the pinning tolerance of the hand-off: 1e-4 for populations below ten million, 1e-5 otherwise)
                    prob += k * V[HUMAN[f]][m] >= (1 - band) * mc[key][m]
                    prob += k * V[HUMAN[f]][m] <= (1 + band) * mc[key][m]
            if add["meat"]:
                prob += V["meat_eaten"][m] >= (1 - band) * mc["meat"][m]
                prob += V["meat_eaten"][m] <= (1 + band) * mc["meat"][m]
        else:
            if not isinstance(feed, float):
                prob += feed == s["feed"][m]
            elif s["feed"][m] > 1e-9 * need:
                return dict(status="no-feed-capable-food")
            if not isinstance(bio, float):
                prob += bio == s["biofuel"][m]
            elif s["biofuel"][m] > 1e-9 * need:
                return dict(status="no-feed-capable-food")
        fed = (V[HUMAN["stored_food"]][m] + V[HUMAN["crops_food"]][m] + kc * V[HUMAN["seaweed"]][m] + V["meat_eaten"][m]
               + V[HUMAN["cellulosic_sugar"]][m] + V[HUMAN["methane_scp"]][m] + s["milk"][m] + s["greenhouse"][m] + s["fish"][m])
        # intake caps of the resilient foods
        for f, nm, k in (("seaweed", "SEAWEED", kc), ("methane_scp", "METHANE_SCP", 1.0), ("cellulosic_sugar", "CELLULOSIC_SUGAR", 1.0)):
            if not on[f]:
                continue
            if not animals:
                ch = caps.get("MAX_%s_AS_PERCENT_KCALS_HUMANS" % nm, 100.0) / 100.0
                prob += k * V[HUMAN[f]][m] <= ch * pop_need
                prob += k * V[HUMAN[f]][m] <= ch * fed
            prob += k * V[f + "_feed"][m] <= caps.get("MAX_%s_AS_PERCENT_KCALS_FEED" % nm, 100.0) / 100.0 * s["feed"][m]
            prob += k * V[f + "_biofuel"][m] <= caps.get("MAX_%s_AS_PERCENT_KCALS_BIOFUEL" % nm, 100.0) / 100.0 * s["biofuel"][m]
        if not animals:
            prob += z <= fed * (100.0 / need)
    if animals:
        if isinstance(score, float):
            return dict(status="no-feed-capable-food")
        prob += z <= score * (1.0 / 3.0)
    else:
        # end of horizon: stored food (storage regimes) and crops fully used
        if add["sf"] and c["store"]:
            prob += sf_left == 0
        if add["crops"]:
            prob += crop_left == 0
    prob.solve(pulp.PULP_CBC_CMD(msg=0, timeLimit=time_limit))
    st = pulp.LpStatus[prob.status]
    if st != "Optimal":
        return dict(status=st)
    vs = {k: [float(pulp.value(x)) if not isinstance(x, float) else 0.0 for x in v] for k, v in V.items()}
    for k in vs:
        vs[k] = [0.0 if abs(x) < 1e-13 else x for x in vs[k]]
    return dict(status="Optimal", z=float(pulp.value(z)), vars=vs)


def job(args):
    idx, lp = args
    try:
        r = solve(lp)
    except BaseException as ex:  # noqa
        r = dict(status="error:" + repr(ex)[:200])
    r["idx"] = idx
    return r
