"""Encoding of real quantities as the limb fixed-point numbers of spec/Num.tla.

value = s * sum(m[i] * 10^(4*i)) * 10^-12, little-endian base-10^4 limbs.
The recorder uses only `num()` (unit normalisation + this encoding); every
relation between the numbers is evaluated by TLC.
"""
from fractions import Fraction
import math

B = 10000
FRAC = 3
SCALE = 10 ** (4 * FRAC)


class NonFinite(ValueError):
    """an observed quantity that is not a number (nan / inf): there is nothing to ask the specification about"""


def num(x, unit=1.0):
    """Encode float/int/Fraction x (divided by `unit`) at 1e-12 resolution."""
    if isinstance(x, Fraction):
        q = x / Fraction(unit)
    else:
        x = float(x)
        if not math.isfinite(x):
            raise NonFinite("non-finite quantity cannot be encoded: %r" % x)
        q = Fraction(x) / Fraction(unit)
    n = int(round(q * SCALE))
    s = 1 if n >= 0 else -1
    n = abs(n)
    m = []
    while n:
        m.append(n % B)
        n //= B
    return {"s": s, "m": m}


def denum(d):
    n = 0
    for i, l in enumerate(d["m"]):
        n += l * B ** i
    return d["s"] * n / SCALE


def tla(d):
    """TLA+ literal of an encoded number."""
    return "[s |-> %d, m |-> <<%s>>]" % (d["s"], ", ".join(str(l) for l in d["m"]))
