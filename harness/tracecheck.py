"""Batched trace validation: shards traces into NDJSON files, one TLC (workers 1) per shard in parallel, parses the
noted failing clauses (TraceLib.Report)."""
import json
import os
import re
from concurrent.futures import ThreadPoolExecutor

from . import common as C


def validate(module, cfg, traces, out, name=None, nshards=None, heap="3g", timeout=3000):
    """traces: list of dicts with 'ev' (events for TLC), optional 'spec_hdr' (header read by the spec) and 'hdr' (Python only). Returns list of (trace, l, clause) and updates `out`."""
    name = name or module
    if not traces:
        return []
    n = min(nshards or C.NCPU, len(traces))
    shards = [traces[i::n] for i in range(n)]
    wd = C.workdir()

    def one(args):
        i, sh = args
        f = os.path.join(wd, "%s_%d_%d.ndjson" % (name, os.getpid(), i))
        with open(f, "w") as fh:
            for k, t in enumerate(sh):
                fh.write(json.dumps(dict(tid=k + 1, hdr=t.get("spec_hdr", {}), ev=t["ev"])) + "\n")
        r = C.run_tlc(module, cfg=cfg, workers=1, env={"TRACE_FILE": f}, timeout=timeout, heap=heap)
        os.remove(f)
        fails = []
        flat = r.out.replace("\n", " ")
        m = re.search(r'"VERIF_FAILS",\s*(\d+),\s*(<<.*?>>)\s*>>\s*<<\s*"VERIF_DONE",\s*(\d+),\s*(\d+),\s*(\d+)', flat)
        nev = 0
        if m:
            for mm in re.finditer(r'<<(\d+), (\d+), "(\w+)">>', m.group(2)):
                fails.append((int(mm.group(1)), int(mm.group(2)), mm.group(3)))
            if int(m.group(3)) != len(sh):
                r.error = "only %s of %d traces were consumed to their end" % (m.group(3), len(sh))
            if int(m.group(1)) and not fails:
                r.error = "failures noted but not parsed"
            if int(m.group(1)) > 500:
                r.note = "more than 500 failing clauses noted; the first 500 are reported"
            nev = int(m.group(5))
        elif not r.error:
            r.error = "no VERIF report in TLC output: " + r.out[-800:]
        return i, r, [(sh[t - 1], l, c) for (t, l, c) in sorted(set(fails))], nev

    res = []
    with ThreadPoolExecutor(max_workers=C.NCPU) as ex:
        for i, r, fails, nev in ex.map(one, list(enumerate(shards))):
            out.add_tlc("%s:%d" % (name, i), r)
            out.evaluations += nev
            res.extend(fails)
    out.traces += len(traces)
    return res
