"""C02: Optimum.tla — the real Optimizer's optimum on small instances vs exhaustive search (MC_Optimum), plus achievability
(Ledger trace with OptimumAchieved) on the small instances and on every people-maximising round of the corpus."""
import json
import math
import os
import random
import subprocess

from . import common as C
from . import corpus
from . import ledger
from . import tracecheck


def lcm_upto(n):
    l = 1
    for k in range(1, n + 1):
        l = l * k // math.gcd(l, k)
    return l


def gen_instances(tier, seed):
    rng = random.Random(1000 + seed)
    out = []
    sizes = [3, 3, 4] if tier == "quick" else [3, 4, 4, 5, 5, 6]
    count = 60 if tier == "quick" else 480
    # fixed members: the meat instance that exposed the missing cumulative cap, and a first-year-only one
    fixed = [dict(n=3, sf=12, crops=[0, 0, 0], meat=[12, 12, 12], scp=[0, 0, 120], waste=0, store=True, feed=[0, 0, 0]),
             dict(n=3, sf=24, crops=[0, 24, 0], meat=[12, 0, 12], scp=[0, 12, 0], waste=50, store=False, feed=[0, 0, 0]),
             dict(n=4, sf=48, crops=[0, 48, 0, 48], meat=[0, 0, 0, 0], scp=[0, 0, 0, 0], waste=0, store=True, feed=[12, 0, 0, 0])]
    for f in fixed:
        out.append(f)
    while len(out) < count:
        n = rng.choice(sizes)
        unit = 2 * lcm_upto(n) if n <= 4 else 2 * lcm_upto(4)
        waste = rng.choice([0, 0, 50])
        mult = lambda hi: rng.choice([0] * 2 + list(range(1, hi + 1)))  # noqa
        inst = dict(n=n, sf=unit * mult(3), crops=[unit * mult(2) if rng.random() < 0.6 else 0 for _ in range(n)],
                    meat=[unit // 2 * mult(2) if rng.random() < 0.5 else 0 for _ in range(n)],
                    scp=[unit // 2 * mult(2) if rng.random() < 0.3 else 0 for _ in range(n)], waste=waste, store=rng.random() < 0.75,
                    feed=[(unit // 2) * rng.choice([0, 0, 0, 1]) for _ in range(n)])
        if inst["sf"] + sum(inst["crops"]) + sum(inst["meat"]) + sum(inst["scp"]) == 0:
            continue
        out.append(inst)
    for i, inst in enumerate(out):
        inst["id"] = i + 1
        inst["need"] = 1000
    return out


def gen_animal_instances(tier, seed):
    """small feed-maximising rounds: pinned human consumption, ceilings, stored food and crops as the feed-capable foods"""
    rng = random.Random(7000 + seed)
    out = []
    count = 30 if tier == "quick" else 240
    while len(out) < count:
        n = rng.choice([2, 3, 3, 4] if tier == "quick" else [2, 3, 3, 4, 4, 5])
        waste = rng.choice([0, 0, 50])
        g = 2 if waste else 1
        sf = rng.choice([0, 4, 8, 12])
        crops = [rng.choice([0, 0, 4, 6]) for _ in range(n)]
        h_sf, h_crop = [], []
        s_left, c_left = sf, 0
        for m in range(n):  # pinned human consumption that is itself feasible
            c_left += crops[m]
            a = rng.choice([0, 1, 2])
            a = min(a, s_left // g)
            b = min(rng.choice([0, 0, 1, 2]), c_left // g)
            h_sf.append(a)
            h_crop.append(b)
            s_left -= g * a
            c_left -= g * b
        top = rng.choice([2, 3, 5])
        max_f = sorted([rng.choice([0, top, top, top + 1]) for _ in range(n)], reverse=rng.random() < 0.7)
        max_b = [rng.choice([0, 1, 2]) if m < rng.choice([0, 1, n]) else 0 for m in range(n)]
        out.append(dict(mode="animals", n=n, need=1000, sf=sf, crops=crops, meat=[0] * n, scp=[0] * n, store=True, waste=waste, feed=[0] * n,
                        hSf=h_sf, hCrop=h_crop, hMeat=[0] * n, maxF=max_f, maxB=max_b))
    for i, inst in enumerate(out):
        inst["id"] = 10000 + i
    return out


def solve_all(insts):
    wd = C.workdir()
    n = min(C.NCPU, len(insts))
    procs = []
    for i in range(n):
        f = os.path.join(wd, "opt_in_%d.json" % i)
        json.dump(insts[i::n], open(f, "w"))
        procs.append((subprocess.Popen([C.PY, "-m", "harness.opt_solve", f, f + ".out"], cwd=C.scratch_repo(), env=C.worker_env(),
                                       stdout=subprocess.DEVNULL, stderr=subprocess.PIPE, text=True), f))
    res = []
    for p, f in procs:
        _, e = p.communicate()
        if p.returncode != 0:
            raise RuntimeError("opt_solve failed: " + e[-1500:])
        res += json.load(open(f + ".out"))
    return sorted(res, key=lambda r: r["inst"]["id"])


def run(pid, tier):
    out = C.Outcome(pid, tier)
    out.rule = ("seeded family of small people-maximising instances (3-4 months quick, 3-6 thorough; stored food, crops, meat, single-cell "
                "protein, retail waste 0 / 50 %, feed charge, both stock regimes; integer supplies on a grid containing the optimum): the real "
                "Optimizer's optimum vs MC_Optimum's exhaustive search over every feasible allocation (achieve: reachable; better: "
                "unreachable), its allocation vs Ledger.tla with OptimumAchieved; on every round of the corpus OptimumAchieved / "
                "ScoreAchieved and the admissibility clauses, plus a witness search: an independent statement of Ledger.tla's admissible "
                "set proposes the best allocation, and if Trace_Ledger accepts one that beats the reported optimum it is a violation; "
                "distinct = instances + corpus rounds")
    insts = gen_instances(tier, C.seed())
    a_insts = gen_animal_instances(tier, C.seed())
    try:
        sols = solve_all(insts)
        a_sols = solve_all(a_insts)
    except Exception as ex:  # noqa
        out.machinery.append(str(ex)[-1500:])
        return out.finish()
    batch = []
    traces = []
    solved = 0
    failed = {}
    for r in sols:
        i = r["inst"]
        if not r.get("ok"):
            out.extra["infeasible_or_failed"] = out.extra.get("infeasible_or_failed", 0) + 1
            # the Optimizer gave up: legal only if the instance really is infeasible, which the specification decides (target 0)
            failed[i["id"]] = r.get("exc")
            batch.append(dict(id=i["id"], n=i["n"], g=2 if i["waste"] == 50 else 1, sf=i["sf"], crops=i["crops"], meat=i["meat"], scp=i["scp"],
                              feed=i["feed"], store=i["store"], mode="feasible", target=0))
            continue
        solved += 1
        units = r["z"] * i["need"] / 100.0
        zint = int(round(units))
        if abs(units - zint) > 1e-4 * max(1.0, abs(units)):
            zint = int(math.floor(units + 1e-9))
            out.extra["non_grid_optima"] = out.extra.get("non_grid_optima", 0) + 1
        base = dict(id=i["id"], n=i["n"], g=2 if i["waste"] == 50 else 1, sf=i["sf"], crops=i["crops"], meat=i["meat"], scp=i["scp"],
                    feed=i["feed"], store=i["store"])
        batch.append(dict(base, mode="achieve", target=zint))
        batch.append(dict(base, mode="better", target=zint + 1))
        fake_run = dict(job=dict(cc="inst%d" % i["id"], preset="small"))
        t = ledger.lp_trace(fake_run, r["lp"])
        t["hdr"]["inst"] = i
        t["hdr"]["z"] = r["z"]
        traces.append(t)
    a_ok = {}
    for r in a_sols:
        i = r["inst"]
        if not r.get("ok"):
            out.extra["animal_round_failed"] = out.extra.get("animal_round_failed", 0) + 1
            a_ok[i["id"]] = None
        else:
            a_ok[i["id"]] = r["z"]
            fake_run = dict(job=dict(cc="inst%d" % i["id"], preset="small-animals"))
            t = ledger.lp_trace(fake_run, r["lp"])
            t["hdr"]["inst"] = i
            t["hdr"]["z"] = r["z"]
            traces.append(t)
        batch.append(dict(id=i["id"], n=i["n"], g=2 if i["waste"] == 50 else 1, sf=i["sf"], crops=i["crops"], meat=i["meat"], scp=i["scp"], feed=i["feed"],
                          store=True, mode="animals", target=0, hSf=i["hSf"], hCrop=i["hCrop"], maxF=i["maxF"], maxB=i["maxB"]))
    wd = C.workdir()
    # one TLC process per shard of the batch (the search keeps its results in TLC registers, so each process has one worker)
    from concurrent.futures import ThreadPoolExecutor
    nsh = min(C.NCPU, max(1, len(batch) // 8))
    shards = [batch[k::nsh] for k in range(nsh)]

    def one(k):
        bf = os.path.join(wd, "opt_batch_%d.json" % k)
        json.dump(shards[k], open(bf, "w"))
        return C.run_tlc("MC_Optimum", cfg="MC_Optimum.cfg", workers=1, env={"INST_FILE": bf}, timeout=6000, heap="4g")

    with ThreadPoolExecutor(nsh) as ex:
        rs = list(ex.map(one, range(nsh)))
    reached = []
    best = []
    for k, r in enumerate(rs):
        out.add_tlc("MC_Optimum:%d" % k, r)
        got_report = False
        for line in r.out.splitlines():
            if line.startswith('"{') and "Reached" in line:
                rep_ = json.loads(json.loads(line))
                reached += rep_["items"]
                best += rep_.get("best", [])
                got_report = True
        if not got_report:
            reached = None
            break
    r = rs[-1]
    a_by_id = {i["id"]: i for i in a_insts}
    n_a = 0
    for b in best:
        if b["mode"] != "animals":
            continue
        n_a += 1
        inst = a_by_id[b["id"]]
        z = a_ok.get(b["id"])
        fam = "animals:waste%d" % inst["waste"]
        if z is None:
            if b["score"] >= 0:
                out.violation("OptimizerFailsOnFeasibleInstance:%s" % fam, "animal-round instance %d: the Optimizer failed although a feasible "
                              "allocation exists (score %d)" % (b["id"], b["score"]), dict(instance=inst))
            continue
        if b["score"] > 3 * z * (1 + 2e-4) + 1e-3:
            out.violation("BetterAllocationExists:%s" % fam,
                          "animal-round instance %d: the Optimizer reported %.5f (x3 = %.4f) but a feasible allocation scores 2*feed + biofuel = %d"
                          % (b["id"], z, 3 * z, b["score"]), dict(instance=inst, reported=z, better_score=b["score"]))
        elif b["score"] < 0:
            out.violation("ReportedOptimumNotAchievable:%s" % fam, "animal-round instance %d: the specification finds no feasible allocation "
                          "although the Optimizer reported %.5f" % (b["id"], z), dict(instance=inst, reported=z))
    out.extra["animal_instances"] = n_a
    by_id = {i["id"]: i for i in insts}
    zs = {s["inst"]["id"]: s["z"] for s in sols if s.get("ok")}
    if reached is None:
        out.machinery.append("MC_Optimum produced no report: " + (r.error or r.out[-800:]))
    else:
        got = {(x["id"], x["mode"]): x for x in reached}
        for b in batch:
            if b["mode"] == "animals":
                continue
            key = (b["id"], b["mode"])
            inst = by_id[b["id"]]
            fam = "waste%d:%s:%s" % (inst["waste"], "storage" if inst["store"] else "first-year-only", "feed" if any(inst["feed"]) else "nofeed")
            if b["mode"] == "feasible":
                if key in got:
                    out.violation("OptimizerFailsOnFeasibleInstance:%s" % fam,
                                  "instance %d: the Optimizer failed (%s) although this allocation is feasible" % (b["id"], failed.get(b["id"])),
                                  dict(instance=inst, exception=failed.get(b["id"]), allocation=got[key]["alloc"]))
                continue
            if b["mode"] == "achieve" and key not in got:
                out.violation("ReportedOptimumNotAchievable:%s" % fam,
                              "instance %d: no physically feasible allocation reaches the reported optimum %.4f %% (= %d units)" % (b["id"], zs[b["id"]], b["target"]),
                              dict(instance=inst, reported_percent=zs[b["id"]], target=b["target"]))
            if b["mode"] == "better" and key in got:
                out.violation("BetterAllocationExists:%s" % fam,
                              "instance %d: the Optimizer reported %.4f %% but this feasible allocation feeds %d units every month" % (b["id"], zs[b["id"]], b["target"]),
                              dict(instance=inst, reported_percent=zs[b["id"]], better_target=b["target"], allocation=got[key]["alloc"]))
        first = [b for b in batch if b["mode"] == "achieve"][0]
        out.sample(dict(instance=by_id[first["id"]], reported_percent=zs[first["id"]], witness=got.get((first["id"], "achieve"), {}).get("alloc")))
    # achievability by the code's own allocation, small instances and corpus
    ncorpus = 0
    real = []
    for run_ in corpus.runs(tier):
        if run_.get("recorder_error"):
            continue
        for lp in run_.get("lps", []):
            t = ledger.lp_trace(run_, lp)
            traces.append(t)
            real.append((run_, lp, t))
            ncorpus += 1
    fails = tracecheck.validate("Trace_Ledger", "Trace_Ledger.cfg", traces, out, name="Trace_Ledger_C02")
    failed_traces = {}
    for (t, l, clause) in fails:
        h = t["hdr"]
        if not (clause == "FullyUsedStored" and not h.get("store", True)):   # (known finding of C01, not an admissibility condition here)
            failed_traces.setdefault(id(t), set()).add(clause)
        if "inst" in h:
            # on the small instances the code must also be *feasible*: every Ledger clause counts
            out.violation("small:%s" % clause, "instance %d: the Optimizer's own allocation violates %s (reported %.4f %%)" % (h["inst"]["id"], clause, h["z"]),
                          dict(instance=h["inst"], clause=clause, event_index=l))
        elif clause in ("OptimumAchieved", "ScoreAchieved"):
            out.violation("%s:corpus" % clause, "%s %s round %d: worst month of the allocation differs from the reported optimum" % (h["cc"], h["preset"], h["round"]),
                          dict(hdr=h, clause=clause))
        elif clause in ledger.C02_CLAUSES:
            out.violation("%s:corpus:%s" % (clause, "storage" if h["store"] else "first-year-only"),
                          "%s %s round %d: the Optimizer's allocation is not admissible (%s) at event %d" % (h["cc"], h["preset"], h["round"], clause, l),
                          dict(hdr=h, clause=clause, event_index=l))
    # optimality on the full-size instances: a candidate allocation from an independent statement of Ledger.tla's admissible
    # set (harness/witness.py); it counts only if Trace_Ledger accepts it and its worst month beats the reported optimum
    from multiprocessing import Pool
    from . import witness
    with Pool(C.NCPU) as pool:
        wres = pool.map(witness.job, [(k, lp) for k, (_, lp, _) in enumerate(real)
                                      if not (lp["consts"].get("include_fat") or lp["consts"].get("include_protein"))], chunksize=4)
    cand = []
    wstat = {}
    for r in wres:
        run_, lp, t = real[r["idx"]]
        wstat[r["status"][:24]] = wstat.get(r["status"][:24], 0) + 1
        if r["status"] != "Optimal":
            continue
        z = lp["z"]
        tol = 2e-4 * max(1.0, abs(z)) + 1e-4
        if r["z"] > z + tol:
            wt = ledger.lp_trace(run_, dict(lp, vars=r["vars"], z=r["z"]))
            wt["hdr"].update(reported=z, witness_z=r["z"], witness=True)
            cand.append((wt, r, run_, lp))
        elif r["z"] < z - tol and id(t) in failed_traces:
            # the code reports more than the best admissible allocation found, and TLC rejects the allocation it reports it with
            h = t["hdr"]
            out.violation("ReportedOptimumNotAdmissible:real:%s:%s" % ("humans" if h["kind"] == "H" else "animals", "storage" if h["store"] else "first-year-only"),
                          "%s %s round %d: the Optimizer reported %.6f but its allocation violates %s of Ledger.tla, and the best admissible "
                          "allocation found reaches only %.6f" % (h["cc"], h["preset"], h["round"], z, sorted(failed_traces[id(t)]), r["z"]),
                          dict(hdr=h, reported=z, admissible_best=r["z"], violated_clauses=sorted(failed_traces[id(t)])))
        elif r["z"] < z - tol and lp["kind"] == "H":
            out.machinery.append("witness search inconsistent with Ledger.tla: %s %s round %d reports %.6f with an allocation the specification "
                                 "accepts, the search found only %.6f" % (run_["job"]["cc"], run_["job"]["preset"], lp["round"], z, r["z"]))
    out.extra["witness_search"] = wstat
    out.extra["witness_candidates"] = len(cand)
    if cand:
        wfails = tracecheck.validate("Trace_Ledger", "Trace_Ledger.cfg", [c_[0] for c_ in cand], out, name="Trace_Ledger_witness")
        rejected = {}
        for (t, l, clause) in wfails:
            if clause == "FullyUsedStored" and not t["hdr"]["store"]:
                continue  # (the first-year-only regimes cannot use up the stock: known finding of C01, not an admissibility condition here)
            rejected.setdefault(id(t), []).append(clause)
        for wt, r, run_, lp in cand:
            h = wt["hdr"]
            if id(wt) in rejected:
                out.machinery.append("witness search inconsistent with Ledger.tla: candidate for %s %s round %d rejected by %s"
                                     % (h["cc"], h["preset"], h["round"], sorted(set(rejected[id(wt)]))))
                continue
            out.violation("BetterAllocationExists:real:%s:%s" % ("humans" if h["kind"] == "H" else "animals", "storage" if h["store"] else "first-year-only"),
                          ("%s %s round %d: the Optimizer reported %.6f %% but an allocation that Ledger.tla accepts feeds %.6f %% in its worst month"
                           if h["kind"] == "H" else
                           "%s %s round %d: the Optimizer reported a weighted feed and biofuel total of %.6f but an allocation that Ledger.tla accepts delivers %.6f")
                          % (h["cc"], h["preset"], h["round"], h["reported"], h["witness_z"]),
                          dict(hdr=h, reported=h["reported"], witness_percent=h["witness_z"], allocation=r["vars"], inputs=dict(consts=lp["consts"], series=lp["series"])))
    out.distinct_n = solved + ncorpus
    out.extra.update(instances=len(insts), solved=solved, corpus_rounds=ncorpus)
    out.assumptions = ["on the integer grid the optimum of the max-min problem is a grid point (supplies are multiples of 2 * lcm(1..4)); a reported "
                       "optimum that is not on the grid is bracketed (floor achievable, floor + 1 not)",
                       "small instances use a requirement large enough for the intake caps not to bind; full-size instances are decided by "
                       "the witness search (harness/witness.py proposes, Trace_Ledger certifies) - complete only as far as CBC finds the "
                       "optimum of the restated problem; fat / protein requirements are not modelled (no shipped scenario requires them)",
                       "feed-maximising round: the candidate may use the hand-off's pinning tolerance (1e-4 below ten million people, 1e-5 otherwise)"]
    return out.finish()
