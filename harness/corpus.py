"""The shared execution corpus: whole three-round runs recorded by harness/run_rec.py, cached per repository tree."""
import gzip
import json
import os
import subprocess

from . import common as C
from . import presets


def record(tier):
    """Returns the list of shard files (ndjson.gz), recording them first if the cache has none for this tree."""
    h = C.tree_hash()
    jobs = presets.jobs(tier, C.seed())
    # the cache entry also depends on what is recorded and how (job list + recorder source)
    import hashlib
    rec_src = open(os.path.join(os.path.dirname(__file__), "run_rec.py"), "rb").read()
    jh = hashlib.sha256(json.dumps(jobs, sort_keys=True).encode() + rec_src).hexdigest()[:12]
    d = C.cache_dir(h, "runs_%s_%d_%s" % (tier, C.seed(), jh))
    done = os.path.join(d, "DONE")
    with C.locked(os.path.join(d, "rec")):
        if not os.path.exists(done):
            C.prune_cache(h)
            for old in os.listdir(os.path.dirname(d)):
                if old.startswith("runs_%s_" % tier) and os.path.join(os.path.dirname(d), old) != d:
                    import shutil
                    shutil.rmtree(os.path.join(os.path.dirname(d), old), ignore_errors=True)
            scratch = C.scratch_repo()
            n = min(C.NCPU, len(jobs))
            procs = []
            for i in range(n):
                jf = os.path.join(d, "jobs_%d.json" % i)
                json.dump(jobs[i::n], open(jf, "w"))
                procs.append(subprocess.Popen([C.PY, "-m", "harness.run_rec", jf, os.path.join(d, "runs_%d.ndjson.gz" % i)],
                                              cwd=scratch, env=C.worker_env(), stdout=subprocess.DEVNULL, stderr=subprocess.PIPE, text=True))
            errs = []
            for p in procs:
                _, e = p.communicate()
                if p.returncode != 0:
                    errs.append(e[-2000:])
            if errs:
                raise RuntimeError("run recorder failed: " + errs[0])
            open(done, "w").write("ok")
    return sorted(os.path.join(d, f) for f in os.listdir(d) if f.startswith("runs_"))


def runs(tier):
    for f in record(tier):
        with gzip.open(f, "rt") as fh:
            for line in fh:
                yield json.loads(line)
