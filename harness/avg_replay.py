"""Runs the real ImportUtilities.weighted_average_percentages on the vectors enumerated by MC_Pipeline. cwd = scratch copy.
argv: cases.ndjson out.ndjson"""
import json
import os
import sys
from fractions import Fraction

sys.path.insert(0, os.getcwd())


def main():
    from src.utilities.import_utilities import ImportUtilities

    with open(sys.argv[2], "w") as out:
        for line in open(sys.argv[1]):
            c = json.loads(line)
            p = [float(x) for x in c["p"]]
            w = [float(Fraction(a, b)) for a, b in c["w"]]
            try:
                r = float(ImportUtilities.weighted_average_percentages(p, w))
                rec = dict(p=p, w=w, result=r)
            except BaseException as ex:  # noqa
                rec = dict(p=p, w=w, exc=repr(ex)[:160])
            out.write(json.dumps(rec) + "\n")
            if len(set(w)) == 1:
                # even weights: the other entry point of the helper is asked the same question
                try:
                    rec2 = dict(p=p, w=w, result=float(ImportUtilities.average_percentages(p)), fn="average_percentages")
                except BaseException as ex:  # noqa
                    rec2 = dict(p=p, w=w, exc=repr(ex)[:160], fn="average_percentages")
                out.write(json.dumps(rec2) + "\n")


if __name__ == "__main__":
    main()
