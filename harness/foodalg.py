"""C11: FoodAlgebra.tla — exhaustive design check + every transition replayed on real Food objects."""
import json
import os

from . import common as C


def emit_cases(out, cfg="FoodAlgebraEmit.cfg"):
    r = C.run_tlc("FoodAlgebra", cfg=cfg, workers=1, timeout=1800)
    out.add_tlc(cfg, r)
    seen = set()
    cases = []
    for line in r.out.splitlines():
        if line.startswith('"{'):
            try:
                c = json.loads(json.loads(line))
            except ValueError:
                continue
            k = json.dumps(c, sort_keys=True)
            if k not in seen:
                seen.add(k)
                cases.append(c)
    return cases


def run(pid, tier):
    out = C.Outcome(pid, tier)
    out.rule = ("every transition (operation, operand values) of FoodAlgebra.tla up to depth %s over 24 initial quantities "
                "(3 unit triples x total / per-month / each-month x 2-3 number patterns) replayed on real Food objects; "
                "distinct = distinct (operation, operands) transitions; comparison predicates: scalar vs one-month series "
                "under the 4 fat/protein flag settings") % ("3" if tier == "thorough" else "2")
    r = C.run_tlc("FoodAlgebra", cfg="FoodAlgebra.cfg" if tier == "quick" else "FoodAlgebra3.cfg", workers=C.NCPU, timeout=3000)
    out.add_tlc("FoodAlgebra", r)
    if r.violated:
        out.violation("spec:%s" % r.violated, "FoodAlgebra violates %s" % r.violated, r.out[-3000:])
    cases = emit_cases(out)
    if not cases:
        out.machinery.append("FoodAlgebra emitted no transitions")
        return out.finish()
    wd = C.workdir()
    cf = os.path.join(wd, "food_cases.ndjson")
    with open(cf, "w") as fh:
        for c in cases:
            fh.write(json.dumps(c) + "\n")
    rep = os.path.join(wd, "food_rep.json")
    p = C.run_worker("harness.food_replay", [cf, rep], C.scratch_repo(), timeout=3000)
    if p.returncode != 0:
        out.machinery.append("food replay failed: " + p.stderr[-1500:])
        return out.finish()
    rj = json.load(open(rep))
    out.traces = rj["transitions"] + rj["compares"]
    out.evaluations = rj["transitions"] + rj["compares"] * (4 * 16)
    out.distinct_n = rj["transitions"] + rj["compares"]
    out.extra["by_operation"] = rj["by_op"]
    out.extra["compare_cases"] = rj["compares"]
    out.extra["mismatches"] = rj["n_mismatch"]
    for m in rj["mismatches"]:
        out.violation(m["key"], "real Food disagrees with FoodAlgebra on %s" % m["key"], m)
    out.sample(dict(transition=cases[len(cases) // 3]))
    out.sample(dict(transition=cases[2 * len(cases) // 3]))
    out.assumptions = ["result of an operation depends only on the operands' numbers, labels, label list and shape "
                       "(the projection compared after every transition)",
                       "named limitation ScalarTimesRatioSeriesNotImplemented: the code may refuse a single non-ratio quantity times a series of ratios, or return the documented product; the two-ratio different-suffix product is outside the domain",
                       "numbers are small exact rationals; float comparison at 1e-9"]
    return out.finish()
