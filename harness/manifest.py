"""Generates /verif/MANIFEST.json from the table below (python -m harness.manifest)."""
import json
import os

from . import common as C

ALL = ["C%02d" % i for i in range(1, 19)]

CHECKS = {
    "C01": dict(
        technique="TLA+ spec Ledger.tla: TLC exhaustive (MC_Ledger) + trace validation (Trace_Ledger) of every solved LP round "
                  "of the recorded corpus, supplies taken from the round's inputs",
        text="Ledger.tla is a physical stock-and-flow machine written from conservation, independent of the LP's constraint "
             "objects: one Month action per simulated month advances stored food, the crop store, cumulative slaughter and "
             "meat use, the seaweed biomass ledger and the previous feed total, and its guards are the clauses of C01. Every "
             "solved round of every corpus run (quick: 13 countries x 7 presets + variations, ~300 rounds, ~36k month-steps; "
             "thorough: 165 country codes x 12 presets + variations) is replayed through it in limb arithmetic. MC_Ledger "
             "explores the same actions exhaustively on a 3-month integer grid.",
        design_ref="5 (C01), Ledger.tla",
        note="Allocations are LP variable values after the last solve; supplies are consts_for_optimizer / time_consts as "
             "captured by wrapping Optimizer.optimize_*. Tolerances: 1e-5 relative + 1e-6 per month, 5e-4 + 1e-7 x cumulative "
             "supply for running totals (need-units). Known findings G1 (meat) and G3 (first-year-only stock) are keyed by "
             "clause, round kind and stock regime.",
    ),
    "C02": dict(
        technique="TLA+ spec Optimum.tla: TLC exhaustive search over every feasible allocation of small instances (is the real "
                  "Optimizer's optimum achievable, is optimum + 1 grid unit unreachable; feed round: best score) + on every full-size "
                  "corpus round a witness search whose candidates are certified by TLC against Ledger.tla (Trace_Ledger) + Ledger trace "
                  "(OptimumAchieved / ScoreAchieved / admissibility clauses) of the code's own allocation",
        text="For a seeded family of small instances (quick 60, thorough 480; 3-6 months; stock, crops, meat, single-cell protein, "
             "retail waste 0/50 %, feed charge, both stock regimes; integer supplies on a grid containing the max-min optimum) the real "
             "Optimizer.optimize_to_humans is run; Optimum.tla's behaviours are exactly the physically feasible allocations that feed "
             "at least a target every month, so TLC decides by reachability that the reported optimum is attainable and that no "
             "allocation feeds one grid unit more (a violation comes with the better allocation); the feed-maximising round's best "
             "weighted score is found the same way. On every round of the corpus (quick ~370, thorough ~8000, both round kinds) the code's "
             "own allocation must be a Ledger.tla behaviour (ledger, intake caps, stock-regime policy, pinned consumption, never-rising "
             "feed and biofuel) whose worst month / weighted total equals the reported optimum, and an independent statement of "
             "Ledger.tla's admissible set proposes the best allocation: a candidate that Trace_Ledger accepts and that beats the reported "
             "optimum is a violation, as is a reported optimum whose own allocation TLC rejects while no admissible one reaches it.",
        design_ref="5 (C02), Optimum.tla, Ledger.tla",
        note="On full-size rounds completeness is that of the witness search (CBC on the restated problem), soundness is TLC's: a "
             "candidate counts only if every Ledger.tla clause holds for it. Rounds that require fat / protein are left out of the "
             "search (no shipped scenario has them). Small instances use a requirement large enough for the intake caps not to bind.",
    ),
    "C03": dict(
        technique="TLA+ spec Rounds.tla: TLC exhaustive protocol model with liveness (MC_Rounds) + one Trace_Rounds trace per "
                  "recorded three-round run",
        text="Rounds.tla is the three-round protocol as a state machine (Start, Round 1/2/3, Skip, Validator, Done/Failed). "
             "Its Done action carries the three policy implications of C03 (starving => essentially no feed and not below "
             "round 1; round 1 reaches T => final >= T - 0.1) and every Round action the per-month demand and shut-off "
             "bounds on the feed and biofuel actually drawn by the LP; Start requires the threshold in force to be the configured one. "
             "Every corpus run is one trace (quick ~100 runs incl. "
             "T = 10, T = 50 and T = 100 presets; thorough ~2600).",
        design_ref="5 (C03), Rounds.tla",
        note="'Essentially none' is 0.1 % of need per month and the grace 0.1 point, as in validate_results.py. Known finding "
             "G2 is keyed by clause, stock regime and whether the no-feed result is below the threshold.",
    ),
    "C04": dict(
        technique="TLA+ spec Report.tla: TLC exhaustive design check (MC_Report) + one Trace_Report trace per interpreted round "
                  "(LP allocation vs reported series vs kcals-equivalent vs CSV read back)",
        text="Report.tla states, month by month, that every reported contribution is the LP allocation of that food in percent "
             "(documented 3-decimal rounding for stored food and crops), that the monthly total is their sum, that "
             "kcals-equivalent = percent x KD / 100, that the CSV equals the returned series, that the crop split adds up, and "
             "(and its new-storage part is never negative), and at End that the headline - as it stands when the whole run is over - is "
             "the minimum monthly total and within 0.01 % of the first-solve optimum. A solved round whose reporting code raises is a "
             "violation too.",
        design_ref="5 (C04), Report.tla",
        note="The allocation is normalised by the requirement by the recorder (one constant per trace); every other relation is "
             "evaluated by TLC. Tolerance 1e-7 absolute + 1e-9 relative on percent-sized quantities.",
    ),
    "C05": dict(
        technique="TLA+ spec HerdSupply.tla: TLC exhaustive design check (MC_HerdSupply) + one Trace_HerdSupply trace per "
                  "optimisation round (herd species tables vs time_consts meat / milk / feed)",
        text="For every round of every corpus run the monthly slaughter of every species and the milking herds of the herd "
             "simulation that feeds the round are multiplied out in TLC (per-head yields by class, distribution and retail "
             "waste) and compared with the meat and milk series in the round's time_consts - monthly in the human rounds, in "
             "total in the feed round; plus per-head yields as documented (carcass weights x energy densities), feed charged >= feed eaten "
             "and the final herd offered at most the feed round's allocation (round 3), eaten <= offered, grass eaten <= grass, no charge "
             "=> no feed, and every round has a herd simulated in its own run.",
        design_ref="5 (C05), HerdSupply.tla",
        note="Herds are attributed to rounds by the compute_parameters call that built them. Class map restated in the harness.",
    ),
    "C06": dict(
        technique="TLA+ spec Herd.tla: TLC exhaustive (MC_Herd, exact rationals) + trace validation of "
                  "animal_populations.main() runs (Trace_Herd, limb fixed point)",
        text="Every month-step of every recorded run of the real monthly herd loop (15 countries x 3 breeding strategies x "
             "generated feed/grass series in the quick tier; all 165 country codes in the thorough tier) must be a step of "
             "Herd.tla: head-count ledger with zero clamp, non-negative flows, dairy->meat transfer conservation, labour "
             "hours within the size class's baseline capacity, slaughter within the animals available and never below "
             "target, each species stepped once per loop. MC_Herd explores the same actions exhaustively on a 3-species "
             "model (about 10^6 states) and shows the guards are satisfiable in every reachable state (NoStuck).",
        design_ref="5 (C06), Herd.tla",
        note="Births and natural deaths are inputs of the ledger (bound from the trace, only required non-negative). "
             "Baseline slaughter, target head count and LSU factor are read from the simulated animal objects; size "
             "class, hours per head, LSU and digestion type are read independently from species_attributes.csv. "
             "Tolerance 1e-9 relative + 1e-6 absolute. Trusts TLC and harness/limbs.py.",
    ),
    "C07": dict(
        technique="TLA+ spec Herd.tla (Feed action): TLC-enumerated Feed transitions and feeding months replayed through "
                  "the real feed_the_species / feed_animals + trace validation of main() runs",
        text="Herd!Feed states the feeding rule relationally (energy conservation with efficiencies 0.6/0.8, no "
             "over-feeding, grass only to ruminants and before feed, greedy, fed = herd or herd x fraction delivered "
             "within rounding, starving = remainder >= 0, priority order by cross-multiplied keys). MC_Herd computes the "
             "rule as a function on exact rationals, TLC checks function => relation on every reachable state and emits "
             "every Feed transition (about 1.7k distinct) and feeding month (about 1.2k), which are replayed through the real "
             "code; every Feed call of every recorded main() run is validated against the relation by Trace_Herd.",
        design_ref="5 (C07), Herd.tla, MC_Herd.tla",
        note="Priority keys use LSU without the regional factor (named deviation PriorityIgnoresRegionalFactor: main() "
             "sorts before the factor is applied). Meat kcal per head is an input chosen by the harness. Tolerances as C06.",
    ),
    "C08": dict(
        technique="TLA+ spec Supply.tla: calendar / block / ramp facts checked by TLC; per-month recipes (indices and ramp stages) "
                  "replayed against the real supply classes on generated inputs",
        text="Supply.tla defines, for every simulated month, which calendar month, which model year, which ramp stage and which on/off "
             "state each supply series uses (crops, greenhouse crops, fish, grass, feed and biofuel demand, single-cell protein, "
             "cellulosic sugar, seaweed area and growth, initial stored food, year-1 harvest-before-May factor). TLC checks that "
             "months advance through the calendar, that year blocks partition every horizon 48..120 (8, 12, ..., 16), that ramps "
             "are monotone, capped and zero before their delay, and emits the recipes; the replayer evaluates them on seeded inputs "
             "(quick 24 recipes x 6 input sets; thorough 6048 x 12) and compares every entry of every series with the real classes "
             "at 1e-9, plus exact linearity in the baselines.",
        design_ref="5 (C08), Supply.tla",
        note="The product of looked-up floats after the recipe is evaluated outside TLC (index oracle). SCP's doubled delay + 12 "
             "zero months is a named deviation pinned by the repository's own test.",
    ),
    "C09": dict(
        technique="TLA+ spec Supply.tla (crop / greenhouse recipes): replay against OutdoorCrops + Greenhouses incl. small baselines",
        text="Same recipes as C08 restricted to the cropland clauses: outdoor production = grown x (1 - greenhouse share) x (1 - "
             "distribution waste) with the relocated series after harvest duration + rotation delay, greenhouse share zero before "
             "delay + 5 then monotone up to its multiplier, relocation and expansion never lower a month, and no quantisation "
             "(equality at 1e-9 with baselines down to 1e-4 billion kcal per year).",
        design_ref="5 (C09), Supply.tla",
        note="As C08.",
    ),
    "C10": dict(
        technique="TLA+ spec Units.tla: conversion laws checked by TLC on monomial exponent vectors for all pairs/triples of "
                  "unit names; exported table replayed against get_conversion / in_units with exact fractions",
        text="Units.tla writes every supported unit as a monomial c*10^e*POP^a*KD^b*FD^c*PD^d derived from the unit's "
             "definition (not from the code). TLC evaluates RoundTrip, ViaEqualsDirect, FormPreserved and the eleven anchor "
             "identities for all pairs and triples of the 15+18+18 names (about 16k law instances, valid for every positive "
             "parameter setting because they are statements about exponent vectors). The table is then evaluated with exact "
             "fractions at 12 (thorough: 400) parameter settings and compared with the real get_conversion for all 873 "
             "ordered pairs and with in_units (labels, label list, shape, values, round trip, operand unchanged) on "
             "scalars and series, plus the anchors through the in_units_* helpers.",
        design_ref="5 (C10), Units.tla",
        note="The laws are constant-level (ASSUME) so TLC reports no states; coverage is counted as law instances and "
             "replayed conversions. Float comparison at 1e-11 relative.",
    ),
    "C11": dict(
        technique="TLA+ spec FoodAlgebra.tla: TLC enumerates every operation transition (depth 2-3) and each is replayed "
                  "on real Food objects; metamorphic scalar-vs-series replay of the 16 predicates under 4 flag settings",
        text="FoodAlgebra states, per operation, the labels / shape / numbers of the result or that the combination must "
             "be refused; TLC checks that every reachable value is well formed (suffix 'each month' iff series; the three "
             "labels share a suffix) and that a product's units do not depend on the side of the ratio, and emits all "
             "~28k distinct (operation, operands) transitions, each replayed on real Food objects comparing labels, "
             "label list, shape, numbers (exact rationals), operand snapshots and refusal <=> AssertionError.",
        design_ref="5 (C11), FoodAlgebra.tla",
        note="Universe: 3 unit triples (default, ratio, percent) x total/per-month/each-month x 2-3 number patterns, series "
             "of 2 months. Named limitation (MayRefuse): non-ratio scalar x ratio series may be refused or answered correctly, nothing "
             "else. Outside the domain: two ratios with different suffixes. Conversion between the setting-independent mass units is an "
             "operation of the algebra; the setting-dependent conversions are covered by C10.",
    ),
    "C12": dict(
        technique="TLA+ specs Optimum.tla / MC_OptimumLaws (the laws decided on the specification itself by exhaustive search, and the "
                  "code's optimum of every family member compared with the specification's) and Mono.tla (relations between the optimum "
                  "of an instance and of a perturbed copy, both solved by the real Optimizer; pairs validated by TLC)",
        text="Every single-entry supply increase, waste decrease, charge increase and common scale factor x2 / x0.5 is applied to the "
             "small instance family (24 quick, 200 thorough) and, sampled at three months per series, to the first-round inputs of real "
             "(country, preset) pairs (8 quick, ~90 thorough); both instances are solved by the real Optimizer and the pair must satisfy "
             "the law of its kind in Mono.tla (~800 pairs quick), including growing-charge chains (each step against the one before, up to "
             "a charge that must be refused), right-hand sides alone and solves with another run's process-wide settings in force. "
             "MC_OptimumLaws probes every target of every member of a 12-instance (thorough 60) family and checks the laws on the "
             "spec's own optima.",
        design_ref="5 (C12), Mono.tla",
        note="Laws are checked on the code, not derived from it; tolerance 1e-5 relative + 1e-5 absolute on the percentage. A perturbed "
             "instance that becomes infeasible is legal only for a charge increase.",
    ),
    "C13": dict(
        technique="TLA+ spec Options.tla: TLC-enumerated setter sequences, dispatch cases and override keys replayed on the real "
                  "Scenarios / ScenarioRunner / herd builder",
        text="Options.tla models the exactly-once flags, the setter -> family / scale tables, the dispatcher's value table, the "
             "constants each family owns, the documented values and the override targets. TLC checks ExactlyOnce and table "
             "consistency on all sequences of up to two of the 58 setters under both scales (5.8k states) and emits every "
             "transition; each is replayed on a fresh real Scenarios object (refusal <=> AssertionError, nothing written on "
             "refusal, writes only inside the family's constants, exactly one flag set). Every family x {each supported value, an "
             "unknown value, missing} is dispatched through set_depending_on_option under both scales (accepted <=> supported "
             "and scale-compatible, documented values hold, other families' constants unchanged, caller's dictionary unchanged, "
             "check_all_set passes). All 26 override keys are applied (exactly the target constants change; head-count "
             "overrides are followed into the stock table seen by create_animal_objects).",
        design_ref="5 (C13), Options.tla",
        note="The Owns / Doc tables are a transcription of README.md and the setters' docstrings; a disagreement may be a "
             "transcription error and is examined before it is reported. 'required' fat / protein call sys.exit by design.",
    ),
    "C14": dict(
        technique="TLA+ spec Process.tla: TLC enumerates run histories over four call forms (and refutes four broken variants); each "
                  "history is executed in one process and every run compared bitwise with the same run alone",
        text="Process.tla models what outlives a run - the process-global conversion settings, the caller's option object shared by the "
             "countries of one by-country call, the herd model's input tables, the yaml front end's settings-level horizon - the steps "
             "Resolve / SetGlobals / LoadTables / Compute / Fail per run and the invariant that a run's result depends only on the run. "
             "TLC checks it for all histories up to length 3 over nine run types (one failing, one 'known to fail' correction, one with "
             "custom herd sizes, one with its own horizon) and four call forms, shows it is not vacuous by refuting four broken variants "
             "(read before set, correction in place, override into a shared table, horizon rebound), and emits the histories. Each is "
             "executed for real in one fresh process (quick: length <= 2, 137 histories; thorough: length <= 3) and each run's complete "
             "observation (headline, every monthly series, LP values, "
             "herd trajectories, hand-offs, validator outcomes) must be bit-for-bit the observation of the run alone.",
        design_ref="5 (C14), Process.tla",
        note="Bounded history length and nine run types; equality is on the JSON of every recorded float plus a digest of every series "
             "of the result (fat and protein parts included).",
    ),
    "C15": dict(
        technique="TLA+ spec Process.tla (Aggregate part): TLC enumerates selection lists x ratio assignments with their expected "
                  "aggregate; each replayed through the real run_model_no_trade with the per-country optimiser stubbed",
        text="Selected(list) and the capped population-weighted mean are defined in Process.tla over a 6-country universe (incl. a country missing from the world map and one whose map code differs); TLC checks "
             "0 <= fed <= total for every case and emits every selection list of length <= 2 over {x, !x} (157 lists) x 8 (thorough: "
             "1024) ratio assignments over {0, 1/2, 1, 3/2} with the expected selection, fed and total. Each case runs through the real "
             "run_model_no_trade: the countries actually run, the result keys, net_pop and net_pop_fed must equal the expectation.",
        design_ref="5 (C15), Process.tla",
        note="run_optimizer_for_country is stubbed by the harness and the table restricted to six real rows; mixed lists run "
             "exactly the plain entries.",
    ),
    "C16": dict(
        technique="TLA+ spec Rounds.tla: trace acceptance (LegalOrder, SolverOptimal, ValidatorsPass, Completed, "
                  "PercentFedFiniteNonNeg) of every run of the preset grid",
        text="Every (country, preset) of the grid is run for real; the run's event trace must be a complete behaviour of "
             "Rounds.tla: legal order of rounds and skips, solver status 1 at each of the up to nine solves, every built-in "
             "validator call returning normally, Done reached with a finite non-negative percent fed. An exception anywhere is "
             "the event Failed and names the (country, preset). Quick: 16 country codes x 7 presets + variations and same-process histories; thorough: "
             "all 164 countries + world x 12 presets + 4 variations each (2640 runs).",
        design_ref="5 (C16), Rounds.tla",
        note="Presets: the six shipped YAML simulations, six manuscript simulations expressed with the dispatcher's option names, "
             "19 single-option variations (harness/presets.py).",
    ),
    "C17": dict(
        technique="TLA+ spec Pipeline.tla: build graph and script machine checked by TLC; recorded script executions (audit hook), rows of "
                  "the rebuilt combined table and averaging-helper vectors validated by Trace_Pipeline",
        category="model_checking",
        text="Pipeline.tla declares, per import script, the files it reads and the file it writes; TLC checks one producer per derived "
             "file, that scripts/run_all_imports.sh's order is a linear extension of the dependencies (head counts before the per-animal "
             "tables, the combined table last) and, on the script machine, that every dependency-respecting order ends in the same state "
             "with no stale read. All 21 scripts are executed in a scratch copy, each in its own interpreter under an `open` audit hook: "
             "the files actually opened must be the declared ones, the output's sha-256 must equal the shipped file's (Fresh). The 164 rows "
             "of the rebuilt combined table are checked against RowOK in limb arithmetic and 510 boundary vectors (TLC-enumerated) are run "
             "through weighted_average_percentages and checked against Avg.",
        design_ref="5 (C17), Pipeline.tla",
        note="Byte equality is observed as a content identity, not derived; TLC adds declared IO, ordering, completeness, row invariants "
             "and the averaging relation.",
    ),
    "C18": dict(
        technique="TLA+ spec Handoff.tla: relations FillMin / Retime / Bump; MC_Handoff enumerates small inputs that are run "
                  "through the real Parameters helpers; Trace_Handoff validates those and every corpus run's hand-offs",
        text="Handoff.tla states the three hand-offs as input/output relations (sum = min(cap, available), within what was "
             "eaten, strict priority order; re-timing preserves the total, stays non-negative and at or above round 1; the "
             "bump never lowers and never raises above demand). MC_Handoff enumerates ~2k (thorough ~9k) integer inputs; the "
             "real helpers are run on each and the input/output pair must satisfy the relation (checked by TLC in "
             "Trace_Handoff), as must the hand-off objects captured in every corpus run.",
        design_ref="5 (C18), Handoff.tla",
        note="Bump inputs are restricted to charged <= demand (an invariant of its only caller). A helper that refuses (raises on) an input "
             "of its domain is a violation.",
    ),
}

NOT_YET = "check not built yet in this round (planned: see DESIGN.md section 5)"



# what the later rounds of seeded changes added (appended to the texts above)
ADDED = {
    "C02": " The caps and the stock regime in force must be the configured ones (IntakeCapsAsConfigured, StockRegimeAsConfigured).",
    "C04": " What the result reports per food for feed and for biofuel must be what the optimiser sent there, and a round's reported series must "
           "not change once it has been interpreted (output options - figures on, no title - are exercised by dedicated corpus runs).",
    "C05": " The feed round's ceiling is what its herds eat when offered the whole demand; herds start from the configured head counts and are "
           "offered grass by the documented calendar.",
    "C06": " Every herd the stock table lists with animals in it is simulated (India's beef herd is the documented exception); target size, baseline "
           "slaughter and the livestock-unit factor come from the data tables, not from the simulated object.",
    "C11": " The universe has a base that is dimensionless in two nutrients only, an all-zero operand and one-month series; results must not depend on "
           "which nutrients the run counts; comparison predicates are also replayed on ties, on boundary values and on operands of mixed shapes.",
    "C13": " Documented values that live in the data (waste levels, distribution losses, country nuclear-winter ratios) are evaluated against five "
           "country rows; a value must reach the setter the dispatch table names; near misses of the known-to-fail table keep the requested shut-off.",
    "C14": " Every run asks for all tables to be saved: their contents are part of the observation, and in a shared by-country call the tables of "
           "the earlier country are compared with those of its run alone.",
    "C15": " Cases also go through one long-lived runner, with a population override, with a failing country, with a code that is not in the table; "
           "the caller's list must be left as it was; one aggregate (DJI, MUS, KOR, PRK) runs with nothing stubbed, results returned and every table saved.",
    "C08": " The seaweed series go through Parameters.set_seaweed_params with a growth table longer than the horizon; fish may be switched off; demand "
           "schedules include the ones that never stop; the recipes of one horizon run in one process with the delays varying fastest.",
    "C09": " Inputs include a harvest without cropland on record and tiny cropland shares; the harvest table is saved the way a run saves it and the "
           "series must be what it was before; the recipes of one horizon run in one process (state kept by a supply class shows).",
    "C10": " Anchors also cover the conversions the result extraction does by hand (milk, meat, crops under the four fat / protein switch settings, a "
           "generic food whose LP variable is not in kcals), quantities above the need, one-month series, populations that are not whole numbers.",
    "C18": " On corpus runs the threshold is the configured one, the meat the feed round is really given is at or above the no-feed round's, the "
           "running total a round is told is the cumulative sum of its monthly series, and what the final round is charged is what the adjustment returned; every round is given the same harvest.",
}
for _k, _v in ADDED.items():
    CHECKS[_k]["text"] += _v


def main():
    checks = []
    for pid in ALL:
        if pid not in CHECKS:
            continue
        c = CHECKS[pid]
        checks.append(dict(
            property_id=pid,
            quick_cmd="./check %s --tier quick" % pid,
            thorough_cmd="./check %s --tier thorough" % pid,
            evidence_file="evidence/%s.json" % pid,
            replay_cmd_template="./check %s --replay {path}" % pid,
            engine="tlc",
            level_claimed=dict(category=c.get("category", "model_checking"), text=c["text"], design_ref=c["design_ref"]),
            level_note=c["note"],
            technique=c["technique"],
        ))
    fixes = []
    try:
        import subprocess
        log = subprocess.run(["git", "-C", "/repo", "log", "--format=%H %s"], capture_output=True, text=True).stdout
        hooks = [l.split()[0] for l in log.splitlines() if l.split(" ", 1)[1].startswith("verif-hook:")]
    except Exception:
        hooks = []
    m = dict(
        version=1,
        setup_cmd="./setup.sh",
        hooks=dict(
            guard=C.GUARD,
            enable="no source hooks: recorders wrap repository functions from the harness process (monkey-patching in a "
                   "scratch copy); ALLFED_VERIF=1 is exported to workers but nothing in /repo reads it",
            baseline_off_cmd="cd /repo && /venv/bin/python -m pytest -ra -q -p no:cacheprovider --timeout=900 "
                             "--continue-on-collection-errors",
            source_commits=hooks,
            add_only=True,
        ),
        engines=[dict(name="tlc", path="/opt/veriftools/tla/tla2tools.jar", serves_properties=sorted(CHECKS),
                      kind_free_text="TLC 1.8 model checker: exhaustive configs (MC_*), behaviour generation for "
                                     "spec->code replay, batched trace validation (Trace_*) with limb arithmetic")],
        checks=checks,
        not_applicable=[dict(property_id=p, reason=NA.get(p, NOT_YET)) for p in ALL if p not in CHECKS],
        notes="Single CLI ./check <id> --tier quick|thorough. Checks rebuild everything from /repo's working tree "
              "(scratch rsync copy under /dev/shm; recorded corpora cached under .cache/<sha256 of the tree>). "
              "VERIF_REPO points the checks at another tree (used by the mutation self-tests). Exit 2 = machinery failure.",
    )
    with open(os.path.join(C.VERIF, "MANIFEST.json"), "w") as fh:
        json.dump(m, fh, indent=1)
    print("MANIFEST.json: %d checks, %d not_applicable" % (len(checks), len(m["not_applicable"])))


NA = {}

if __name__ == "__main__":
    main()
