"""Regenerates the table of DESIGN.md section 0.5 from /verif/seeded/*/meta.json (python -m harness.seedtable > table.md).
The `FIRST_MISSED` notes say what a change taught: they are the only hand-written part."""
import glob
import json
import os
import re

from . import common as C

FIRST_MISSED = {
    "C02a": "missed before the witness search existed",
    "C02c": "missed first: the code's own allocation was inadmissible (a C01 clause) and over-reported; `ReportedOptimumNotAdmissible` added",
    "C03c": "would have been missed: the threshold was read back from the code's constants; `ThresholdAsConfigured` compares it with the configured one",
    "C04b": "missed first: no re-run of a title in the corpus; `*_rerun` histories and a strict CSV parse added",
    "C04d": "missed first: the headline was read at interpretation time; it is now read when the whole run is over",
    "C05a": "missed first: yields were taken from the code's own table; `YieldOK` from the documented weights and a 350 kg job added",
    "C05c": "missed first: a round whose herd was not simulated in its own run was skipped; `HerdSimulatedThisRun` and a same-process history added",
    "C05d": "not a C05 clause as recorded (grass bookkeeping inside the feeding step): caught by C07",
    "C08d": "an option-level scaling: caught by C13 (`OverrideIsolation`), not by C08's series checks",
    "C11a": "missed first: the combination was outside the domain; now `MayRefuse` (refuse or be right)",
    "C11c": "missed first: conversion was not an operation of `FoodAlgebra`; `ConvertA/B/C` added",
    "C12b": "missed first: pairs were always solved with the instance's own settings in force; pairs with another run's settings added",
    "C12c": "missed first: meat was only perturbed consistently; right-hand sides alone added",
    "C12d": "missed first: each charge was compared with the base only; growing-charge chains added",
    "C13a": "missed first: `PatchKnownBad` cases added",
    "C14a": "missed first: every run had its own dictionary; `joined` by-country calls added to `Process.tla`",
    "C14b": "missed first: no overriding run type; `Overriding` / `tables` added",
    "C14c": "missed first: only the calorie part of the series was recorded; a digest of every series added",
    "C14d": "missed first: the yaml front end was not a call form; `yamlfirst` / `yamlnext` and `horizon` added",
    "C15b": "missed first: no country missing from the world map in the universe; MUS and SWT added",
    "C16a": "missed first in the quick tier: SGP and MUS added to its countries (the thorough tier had it)",
    "C16d": "missed first in the quick tier: URY added to its countries (the thorough tier and C18 had it)",
    "C17a": "missed first: weightings were even; very uneven ones added",
}


def first_sentence(t, n=170):
    t = re.sub(r"\s+", " ", t or "").strip()
    t = re.sub(r"[`*]", "", t)
    if len(t) <= n:
        return t
    cut = t[:n]
    return cut[: cut.rfind(" ")] + " ..."


def main():
    rows = []
    for d in sorted(glob.glob(os.path.join(C.VERIF, "seeded", "*"))):
        name = os.path.basename(d)
        try:
            m = json.load(open(os.path.join(d, "meta.json")))
        except OSError:
            continue
        title = re.sub(r"^(C\d\d|Seed C\d\d)?\s*[/,]?\s*(seed,?)?\s*[Vv]ariant [a-d]\s*[-—:]+\s*", "", m.get("title", "")).strip()
        caught = []
        for p, c in m.get("checks", {}).items():
            if c.get("rc") == 1:
                keys = []
                for v in c.get("violations", []):
                    k = v.split(": ")[0]
                    k = ":".join(k.split(":")[:3])
                    if k not in keys:
                        keys.append(k)
                caught.append("%s `%s`" % (p, "`, `".join(keys[:2])))
        suite = m.get("suite_stable_failed")
        rows.append("| %s | %s | %s | %s%s |" % (name, first_sentence(title, 120), first_sentence(m.get("needs_to_manifest", ""), 150),
                                                 "; ".join(caught) or "**not caught**",
                                                 (" (" + FIRST_MISSED[name] + ")") if name in FIRST_MISSED else ""))
        if suite:
            rows[-1] += "  <!-- pinned suite: %d stable tests fail with this patch -->" % len(suite)
    table = "| id | change | needs | caught by (first clauses) |\n|---|---|---|---|\n" + "\n".join(rows)
    import sys
    if "--write" in sys.argv:
        p = os.path.join(C.VERIF, "DESIGN.md")
        s = open(p).read()
        a, b = s.index("<!-- SEEDTABLE BEGIN -->"), s.index("<!-- SEEDTABLE END -->")
        open(p, "w").write(s[:a] + "<!-- SEEDTABLE BEGIN -->\n" + table + "\n" + s[b:])
    else:
        print(table)


if __name__ == "__main__":
    main()
