"""Regenerates the table of DESIGN.md section 0.5 from /verif/seeded/*/meta.json (python -m harness.seedtable > table.md).
The `FIRST_MISSED` notes say what a change taught: they are the only hand-written part."""
import glob
import json
import os
import re

from . import common as C

FIRST_MISSED = {
    "C02a": "missed before the witness search existed",
    "C02c": "missed first: the code's own allocation was inadmissible (a C01 clause) and over-reported; `ReportedOptimumNotAdmissible` added",
    "C03c": "would have been missed: the threshold was read back from the code's constants; `ThresholdAsConfigured` compares it with the configured one",
    "C04b": "missed first: no re-run of a title in the corpus; `*_rerun` histories and a strict CSV parse added",
    "C04d": "missed first: the headline was read at interpretation time; it is now read when the whole run is over",
    "C05a": "missed first: yields were taken from the code's own table; `YieldOK` from the documented weights and a 350 kg job added",
    "C05c": "missed first: a round whose herd was not simulated in its own run was skipped; `HerdSimulatedThisRun` and a same-process history added",
    "C05d": "not a C05 clause as recorded (grass bookkeeping inside the feeding step): caught by C07",
    "C08d": "an option-level scaling: caught by C13 (`OverrideIsolation`), not by C08's series checks",
    "C11a": "missed first: the combination was outside the domain; now `MayRefuse` (refuse or be right)",
    "C11c": "missed first: conversion was not an operation of `FoodAlgebra`; `ConvertA/B/C` added",
    "C12b": "missed first: pairs were always solved with the instance's own settings in force; pairs with another run's settings added",
    "C12c": "missed first: meat was only perturbed consistently; right-hand sides alone added",
    "C12d": "missed first: each charge was compared with the base only; growing-charge chains added",
    "C13a": "missed first: `PatchKnownBad` cases added",
    "C14a": "missed first: every run had its own dictionary; `joined` by-country calls added to `Process.tla`",
    "C14b": "missed first: no overriding run type; `Overriding` / `tables` added",
    "C14c": "missed first: only the calorie part of the series was recorded; a digest of every series added",
    "C14d": "missed first: the yaml front end was not a call form; `yamlfirst` / `yamlnext` and `horizon` added",
    "C15b": "missed first: no country missing from the world map in the universe; MUS and SWT added",
    "C16a": "missed first in the quick tier: SGP and MUS added to its countries (the thorough tier had it)",
    "C16d": "missed first in the quick tier: URY added to its countries (the thorough tier and C18 had it)",
    "C17a": "missed first: weightings were even; very uneven ones added",
    # wave 3
    "C09e": "missed first: the replay re-implemented the glue between the classes; it now goes through `Parameters.init_*`",
    "C10e": "missed first: conversions were only applied to freshly built quantities; sum / month / min / max of a series added",
    "C11e": "missed first: construction was not an operation of `FoodAlgebra`; `ConstructCases` added",
    "C12e": "missed first: one industrial-food job was silently dropped (numpy population in the harness's own inputs) and charges were "
            "only raised in single months; windows on top of a charged base added, an unsolvable base is now a machinery failure",
    "C14f": "missed first: the returned world map was not part of the observation",
    "C18f": "missed first: no clause tied the running total a round is told to its monthly series, and no corpus run re-timed anything; "
            "`RunningTotalIsCumulative` and the PAK short-schedule job added",
    "C01f": "closed after reading the summary, before the check was run: the retail waste was read back from the code; `RetailWasteAsConfigured`",
    "C03f": "closed after reading the summary: the shut-off months were read back from the code; `ShutoffAsConfigured` and fixed schedule jobs",
    "C07f": "closed after reading the summary: supplies just short of / just beyond the requirement added to the Feed grid",
    "C15e": "closed after reading the summary: every third case now goes through one long-lived runner object",
    "C15f": "closed after reading the summary: a code that is not in the table added to the entries",
    "C18e": "closed after reading the summary: bump inputs beyond the caller's invariant added (only `BumpNeverLowers` is claimed there)",
    # wave 4
    "C04h": "closed after reading the summary: `ResultUnchangedAfterwards` (the reported series of a round are final once interpreted)",
    "C06g": "closed after reading the summary: MLI and GEO added to the quick herd countries",
    "C09g": "closed after reading the summary: the reported hectares of the country table added to the generated constants",
    "C10g": "`sum_many_results_together` has no caller; it is checked as an aggregate in C15 (`SumManyIsWeightedMean`), added after this change",
    "C11g": "closed after reading the summary: index by a numpy integer added as an operation",
    "C11h": "closed after reading the summary: an all-zero operand added to the universe",
    "C12g": "closed after reading the summary: all six retail-waste keys are perturbed",
    "C13g": "closed after reading the summary: zero-valued overrides added",
    "C13h": "an override lost in the final round's herd: see `StartsFromConfiguredHeads` (C05), added after this change",
    "C14g": "the intake-limit table became a fourth kind of shared state in `Process.tla` after this change",
    "C15g": "closed after reading the summary: cases with a population override added",
    "C15h": "closed after reading the summary: ratios just below one added (fractions counted in 1/200)",
    "C16h": "closed after reading the summary: a resilient-food run with the intake caps off added to the corpus",
    "C03g": "closed after reading the summary: the plain `continued` schedule was in no preset; two jobs added",
    # wave 5
    "C05i": "missed first: the grass on offer was read back from the code's own table; `GrassAsScheduled` compares it with the documented calendar",
    "C08j": "missed first: each schedule was computed once per process; the fish schedule is now computed twice and must repeat",
    "C09h": "a history across runs of the supply classes; the effect is in the greenhouse output, which was filed under C08 only: now also reported under C09",
    "C09j": "missed first: greenhouse-output mismatches were filed under C08 only, and no small input had a tiny cropland share",
    "C11i": "missed first: refusals were only replayed with all nutrients counted; every flag setting added",
    "C11j": "missed first: no value just below the precision of the predicates; boundary values added",
    "C13j": "missed first: no out-of-range override among the cases",
    "C14i": "missed first: every by-country call built a new runner; one runner per process, as `run_many_options` does",
    "C15h": "closed after reading the summary: ratios just below one added (fractions counted in 1/400)",
    # wave 6
    "C02l": "closed after reading the summary: the caps were read back from the code's inputs; `IntakeCapsAsConfigured` compares them with the documented ones",
    "C04k": "missed first: every corpus run had a title; a world run without one added",
    "C04l": "missed first: every corpus run had the per-country figures off; two runs with figures on added",
    "C06k": "closed after reading the summary: the known finding G5 was keyed by herd only; it is now keyed by herd and month, so negative births in another month are new",
    "C09k": "missed first: no input with a harvest but no cropland on record",
    "C11k": "missed first: every operand was dimensionless in all three nutrients or in none; a half-ratio base added",
    "C11l": "missed first: conversions were only replayed with all nutrients counted; results must not depend on the flags",
    "C13l": "missed first: the documented value of the in-country waste levels (a column of the country's row) was not in `Doc`",
    "C14k": "closed after reading the summary: the overriding run type now carries every kind of numeric override",
    # wave 7
    "C01m": "a slip in the result extraction, not in the LP: caught by C04's `FeedBiofuelReportIsAllocation`, added after this change",
    "C01n": "missed first: the ceiling of the feed round was read back from the code; `CeilingIsWhatHerdsEat` (C05) ties it to the herds",
    "C02n": "closed after reading the summary: 48-month nuclear-winter runs for USA and DNK added to the corpus",
    "C03n": "missed first: no run with seaweed alone, demand that never stops and a country well above the threshold; BRA `nw_seaweed` added",
    "C05m": "a herd-model slip (a skipped feeding step leaves last month's fed count): caught by C07 once a month with nothing on offer followed months of plenty",
    "C07m": "closed after reading the summary: the livestock-unit factor was read back from the herd object; it now comes from the region tables, SWT added",
    "C07n": "entered through the integrated path only (`CalculateFeedAndMeat`): caught by C05 `EatenWithinOffered`",
    "C08m": "closed after reading the summary: fish was never switched off in the inputs",
    "C08n": "closed after reading the summary: no demand schedule lasted the whole horizon",
    "C09h": "missed until the recipes of one horizon were run in one process with the delays varying fastest",
    "C09n": "an option-level slip (the country's ratios zeroed below 1e-3): caught by C13 once `Doc` held the country nuclear-winter ratios (`row1p:`)",
    "C10m": "closed after reading the summary: anchors on the conversions the result extraction does by hand",
    "C10n": "closed after reading the summary: populations that are not whole numbers",
    "C11m": "closed after reading the summary: predicates with operands of mixed shapes, operands compared afterwards",
    "C11n": "closed after reading the summary: operands that tie in one nutrient and differ in the others",
    "C13m": "closed after reading the summary: `DispatchReachesNamedSetter`",
    "C14n": "closed after reading the summary: the overriding run is a nuclear-winter run with another seasonality and stock regime",
    "C15n": "closed after reading the summary: one aggregate with nothing stubbed, results returned and every table saved",
    "C16m": "closed after reading the summary: AUS added to the quick countries (the thorough tier had it)",
    "C18l": "missed first: the re-timing helper was simply not called; `MeatGiven` judges the series the feed round is really given",
    "C18m": "missed first: the threshold of `FillSum` was read back from the constants; it is now the configured one, ARG `nw_T50` added",
    "C18n": "missed first: no bump input where the crops left lie between one request and both",
    # wave 8
    "C02p": "missed first: the stock regime was read back from the code, and no quick run used the fourth regime; `StockRegimeAsConfigured` and USA `nw_baseline_nostore`",
    "C05p": "missed first: no country with dairy herds but no national milk figure; CYP added",
    "C08o": "an option-level slip (the sugar loss takes the crops column): caught by C13 `WritesAsDocumented` on the distribution losses, documented after wave 6",
    "C08p": "an option-level slip (yield gains clipped away): caught by C13 `WritesAsDocumented` (`row1p:` on the AUS row)",
    "C10p": "closed after reading the summary: a conversion repeated after the quantity (and the first result) changed",
    "C11o": "closed after reading the summary: series that are one month long",
    "C11p": "a history of requirement changes on the shared converter: caught by C10 once two settings differed in the fat and protein needs only",
    "C12o": "a slip in the feed total of the LP: caught by C01 `FeedEqualsCharge` and C02; C12's own pairs do not reach it (it needs sugar in surplus and both charges from month 7 on)",
    "C13p": "closed after reading the summary: near misses of the known-to-fail table must keep the requested shut-off",
    "C14o": "missed first: New Zealand, the one country the final round treats specially, was in no run type; it replaces the USA",
    "C15o": "missed first: the harness handed every call a fresh copy of the list; the caller's list is now compared afterwards",
    "C18p": "missed first: no run without initial stock; ARG `nw_no_stored_food` added",
    # wave 9
    "C02q": "closed after reading the summary: a 48-month run of a country with a harvest in the last two months (ARG) added",
    "C02r": "the ceiling of the feed round set to the demand (as C01n): caught by C05 `CeilingIsWhatHerdsEat`",
    "C03r": "closed after reading the summary: a world-aggregate run with an explicit threshold added",
    "C06r": "missed first: nothing compared the simulated herds with the stock table; `EverySpeciesSimulated` (India's beef herd is the documented exception)",
    "C08q": "an option-level slip (the expansion ratio reset by a helper): caught by C13 once `Doc` held the cropland expansion",
    "C10q": "closed after reading the summary: conversions of series that are one month long",
    "C10r": "closed after reading the summary: the generic extraction anchor uses a food whose LP variable is not in kcals",
    "C12q": "closed after reading the summary: month-indexed series are rescaled in place on the copy of an instance solved before",
    "C13r": "state kept on a re-used runner object: caught by C14 (the overriding run followed by other runs on one runner)",
    "C14r": "missed first: only the last country of a by-country call was observed, and no two run types shared their options; the recorder now "
            "asks for every table to be saved and compares the tables of the earlier country with those of its run alone (NZL runs with ARG's options)",
    "C15r": "closed after reading the summary: the two Koreas in the un-stubbed aggregate",
    "C16q": "missed first in the quick tier: BRN added to its countries (the thorough tier had it)",
    "C16r": "missed first in the quick tier: SWT added to its countries (the thorough tier and C06 / C07 had it)",
    "C18r": "missed first: nothing tied the final round's charge to what the adjustment returned; `AdjustedIsCharged`",
    # wave 10 (C08 C09 C10 C11 C13 C15 C17 only)
    "C08s": "the known-to-fail correction firing for shut-off values the table does not list: caught by C13 (near miss on the shut-off value, added after reading the summary)",
    "C08t": "an option-level slip (the buffer of the fourth stock regime lost): caught by C13 `WritesAsDocumented`",
    "C09t": "an option-level slip (small seasonal shares zeroed): caught by C13 once `Doc` held the country's seasonality (`rowlist:`, MWI and PHL rows)",
    "C10t": "closed after reading the summary: quantities above the need (three times the requirement is three times the population)",
    "C11s": "closed after reading the summary: shifts by the length of the series and by more",
    "C11t": "a wrong entry of the multiplier table (numbers, not labels): caught by C10 `get_conversion`",
    "C13s": "closed after reading the summary: the yaml front end is replayed with two simulations (nothing is inherited from the one before)",
    "C15s": "closed after reading the summary: the fraction the runner itself announces is compared too",
    "C15t": "a slip in the yaml front end (a simulation's `countries` key sticks): caught by C13's front-end replay",
    # wave 11 (C08 C09 C10 C11 C13 C15 C17) and a tenth pair for C06 / C07
    "C06s": "closed after reading the summary: every fifth herd run starts one herd from a configured head count; the target follows the configured count, not the object's copy",
    "C08u": "missed first: the seaweed series were taken from the class, not from the glue that hands them to the optimiser, and the growth table was exactly as long as the horizon",
    "C09u": "missed first: the truncation is applied to the live inputs while the harvest table is saved, before the first round is solved, on a path the "
            "supply replay did not take; the replay now saves the table the way a run does and the series must be what it was "
            "(`NotQuantised:saving-the-harvest-table-changes-the-harvest`). `HarvestSameEveryRound` (C18) and a quick-tier run with a tiny harvest were added on the way",
    "C10u": "missed first: the crops' extraction was not among the anchors; it is now checked under the four settings of the fat / protein switches",
    "C10v": "a hand-written percent-to-kcals conversion inside the hand-off: caught by C18 `FillSum`",
    "C13v": "closed after reading the summary: the multipliers at world scale, twice with one dictionary",
    "C15v": "a slip in the yaml front end (a selection written as one plain string): caught by C13's front-end replay",
    "C17u": "missed first: only the weighted entry point of the averaging helper was replayed; the even-weight one now answers the same vectors",
    "C18c": "caught from wave 1; a later encoding change turned its `inf` into a machinery failure for a while: a non-finite observation is now a violation",
}


def first_sentence(t, n=170):
    t = re.sub(r"\s+", " ", t or "").strip()
    t = re.sub(r"[`*]", "", t)
    if len(t) <= n:
        return t
    cut = t[:n]
    return cut[: cut.rfind(" ")] + " ..."


def main():
    rows = []
    for d in sorted(glob.glob(os.path.join(C.VERIF, "seeded", "*"))):
        name = os.path.basename(d)
        try:
            m = json.load(open(os.path.join(d, "meta.json")))
        except OSError:
            continue
        title = re.sub(r"^(C\d\d|Seed C\d\d)?\s*[/,]?\s*(seed,?)?\s*[Vv]ariant [a-t]\s*[-—:]+\s*", "", m.get("title", "")).strip()
        caught = []
        for p, c in m.get("checks", {}).items():
            if c.get("rc") == 1:
                keys = []
                for v in c.get("violations", []):
                    k = v.split(": ")[0]
                    k = ":".join(k.split(":")[:3])
                    if k not in keys:
                        keys.append(k)
                caught.append("%s `%s`" % (p, "`, `".join(keys[:2])))
        suite = m.get("suite_stable_failed")
        rows.append("| %s | %s | %s | %s%s |" % (name, first_sentence(title, 120), first_sentence(m.get("needs_to_manifest", ""), 150),
                                                 "; ".join(caught) or "**not caught**",
                                                 (" (" + FIRST_MISSED[name] + ")") if name in FIRST_MISSED else ""))
        if suite:
            rows[-1] += "  <!-- pinned suite: %d stable tests fail with this patch -->" % len(suite)
        if m.get("slow_test_pass") is False:
            rows[-1] += "  <!-- the slow end-to-end test fails with this patch -->"
    table = "| id | change | needs | caught by (first clauses) |\n|---|---|---|---|\n" + "\n".join(rows)
    import sys
    if "--write" in sys.argv:
        p = os.path.join(C.VERIF, "DESIGN.md")
        s = open(p).read()
        a, b = s.index("<!-- SEEDTABLE BEGIN -->"), s.index("<!-- SEEDTABLE END -->")
        open(p, "w").write(s[:a] + "<!-- SEEDTABLE BEGIN -->\n" + table + "\n" + s[b:])
    else:
        print(table)


if __name__ == "__main__":
    main()
