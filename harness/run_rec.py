"""Recorder of whole three-round runs (the shared execution corpus of C01 C03 C04 C05 C16 C18).

Runs with cwd = scratch copy of the repository.  Installs wrappers (in this process only; the repository is
not edited) around
    Parameters.compute_parameters_{first,second,third}_round, Parameters.calculate_human_consumption_for_min_needs,
    Parameters.get_second_round_kcals_with_redistributed_meat, Parameters.increase_biofuels_then_feed,
    CalculateFeedAndMeat.__init__, Optimizer.optimize_to_humans / optimize_feed_to_animals,
    ScenarioRunner.run_optimizer, pulp.LpProblem.solve, every Validator static
and writes one raw observation per run (plain floats; no arithmetic on observed quantities).
argv: jobs.json out.ndjson.gz
"""
import contextlib
import copy
import gzip
import io
import json
import os
import sys
import time
import traceback

import numpy as np

sys.path.insert(0, os.getcwd())

CAP = None  # the observation being filled


def fl(x):
    if x is None:
        return None
    a = np.asarray(x, dtype=float)
    if a.ndim == 0:
        return float(a)
    return [float(v) for v in a]


def val(v):
    if hasattr(v, "varValue"):
        return 0.0 if v.varValue is None else float(v.varValue)
    return float(v)


def herd_obs(fm, feed_avail, grass_avail, tag):
    sp = []
    for a in fm.all_animals:
        sp.append(dict(type=a.animal_type, size=a.animal_size, milk=("milk" in a.animal_type),
                       slaughter=fl(a.slaughter), population=fl(a.population),
                       initial=float(getattr(a, "initital_population", float("nan")))))
    return dict(tag=tag, species=sp, feed_used=fl(fm.feed_used.kcals), grass_used=fl(fm.grass_used.kcals),
                feed_avail=fl(feed_avail.kcals), grass_avail=fl(grass_avail.kcals), oid=id(fm))


def lp_obs(opt, kind, variables, z, min_cons=None):
    c = opt.consts_for_optimizer
    tc = opt.time_consts
    n = c["NMONTHS"]
    inp = c["inputs"]
    consts = dict(
        NMONTHS=n, POP=float(c["POP"]), need=float(c["BILLION_KCALS_NEEDED"]), KCALS_MONTHLY=float(c["KCALS_MONTHLY"]),
        KCALS_DAILY=float(c["KCALS_DAILY"]), store=bool(c["STORE_FOOD_BETWEEN_YEARS"]),
        add=dict(seaweed=bool(c["ADD_SEAWEED"]), crops=bool(c["ADD_OUTDOOR_GROWING"]), sf=bool(c["ADD_STORED_FOOD"]),
                 meat=bool(c["ADD_MEAT"]), scp=bool(c["ADD_METHANE_SCP"]), cs=bool(c["ADD_CELLULOSIC_SUGAR"])),
        waste=dict(sf=float(c["STORED_FOOD_WASTE_RETAIL"]), crops=float(c["CROP_WASTE_RETAIL"]), meat=float(c["MEAT_WASTE_RETAIL"]),
                   scp=float(c["SCP_RETAIL_WASTE"]), cs=float(c["CELL_SUGAR_RETAIL_WASTE"]), seaweed=float(c["SEAWEED_WASTE_RETAIL"])),
        sf_initial=float(np.asarray(c["stored_food"].initial_available.kcals).reshape(-1)[0]),
        meat_total=float(c["meat_summed_consumption"]),
        seaweed=dict(initial=float(c["INITIAL_SEAWEED"]), kcals=float(c["SEAWEED_KCALS"]), harvest_loss=float(c["HARVEST_LOSS"]),
                     min_density=float(c["MINIMUM_DENSITY"]), max_density=float(c["MAXIMUM_DENSITY"]),
                     initial_area=float(c["INITIAL_BUILT_SEAWEED_AREA"])),
        caps={k: float(inp[k]) for k in inp if k.startswith("MAX_") and "_AS_PERCENT_KCALS_" in k},
        T=float(inp["MINIMUM_PERCENT_FED_BEFORE_NONHUMAN_CONSUMPTION_ALLOWED"]), cc=inp["COUNTRY_CODE"],
        include_fat=bool(inp["INCLUDE_FAT"]), include_protein=bool(inp["INCLUDE_PROTEIN"]))
    series = dict(
        crops=fl(tc["outdoor_crops"].production.kcals), meat=fl(tc["each_month_meat_slaughtered"].kcals),
        meat_running=fl(tc["max_consumed_culled_kcals_each_month"]), milk=fl(tc["milk_kcals"]),
        fish=fl(tc["fish"].to_humans.kcals), greenhouse=fl(tc["greenhouse_crops"].kcals), scp=fl(tc["methane_scp"].kcals),
        cs=fl(tc["cellulosic_sugar"].kcals), built_area=fl(tc["built_area"]), growth=fl(tc["growth_rates_monthly"]),
        feed=fl(tc["feed"].kcals), biofuel=fl(tc["biofuel"].kcals))
    if kind == "A":
        series["max_feed"] = fl(tc["max_feed_that_could_be_used"].kcals)
        series["max_biofuel"] = fl(tc["max_biofuel_that_could_be_used"].kcals)
    names = ["stored_food_start", "stored_food_end", "stored_food_to_humans", "stored_food_feed", "stored_food_biofuel",
             "crops_food_storage", "crops_food_consumed", "crops_food_to_humans", "crops_food_feed", "crops_food_biofuel",
             "meat_start", "meat_end", "meat_eaten", "methane_scp_to_humans", "methane_scp_feed", "methane_scp_biofuel",
             "cellulosic_sugar_to_humans", "cellulosic_sugar_feed", "cellulosic_sugar_biofuel", "seaweed_wet_on_farm",
             "seaweed_to_humans", "seaweed_feed", "seaweed_biofuel", "used_area", "consumed_kcals"]
    vs = {nm: [val(variables[nm][m]) for m in range(n)] for nm in names}
    ob = dict(kind=kind, consts=consts, series=series, vars=vs, z=float(z), obj_var=val(variables["objective_function"]))
    if min_cons is not None:
        ob["min_cons"] = {k: fl(v.in_units_bil_kcals_thou_tons_thou_tons_per_month().kcals) for k, v in min_cons.items()}
    return ob

def install():
    import pulp
    from src.food_system import animal_populations as ap
    from src.optimizer.optimizer import Optimizer
    from src.optimizer.parameters import Parameters
    from src.optimizer.validate_results import Validator
    from src.scenarios.run_scenario import ScenarioRunner

    if getattr(Optimizer, "_verif_wrapped", False):
        return
    Optimizer._verif_wrapped = True

    # ---- herds: tagged with the compute_parameters_* call that is active when they are built
    o_init = ap.CalculateFeedAndMeat.__init__

    def w_init(self, country_code, available_feed, available_grass, scenario, kcals_per_head_meat_dict, constants_inputs=None):
        fa = copy.deepcopy(available_feed)
        ga = copy.deepcopy(available_grass)
        o_init(self, country_code, available_feed, available_grass, scenario, kcals_per_head_meat_dict, constants_inputs)
        if CAP is not None:
            CAP["herds"].append(herd_obs(self, fa, ga, CAP.get("phase", "?")))
            CAP["kcals_per_head"] = {k: float(v) for k, v in kcals_per_head_meat_dict.items()}

    ap.CalculateFeedAndMeat.__init__ = w_init

    def wrap_phase(name, phase):
        orig = getattr(Parameters, name)

        def w(self, *a, **k):
            prev = CAP.get("phase") if CAP is not None else None
            if CAP is not None:
                CAP["phase"] = phase
            try:
                r = orig(self, *a, **k)
            finally:
                if CAP is not None:
                    CAP["phase"] = prev
            if CAP is not None:
                CAP["params_%d" % phase] = r
            return r

        setattr(Parameters, name, w)

    wrap_phase("compute_parameters_first_round", 1)
    wrap_phase("compute_parameters_second_round", 2)
    wrap_phase("compute_parameters_third_round", 3)

    o_min = Parameters.calculate_human_consumption_for_min_needs

    def w_min(self, constants_inputs, interpreted_results_round1, extra_meat_round2):
        r = o_min(self, constants_inputs, interpreted_results_round1, extra_meat_round2)
        if CAP is not None:
            i1 = interpreted_results_round1
            avail = dict(
                fish=fl(i1.fish_kcals_equivalent.kcals), meat=fl(i1.meat_kcals_equivalent.kcals),
                dairy=fl(i1.milk_kcals_equivalent.kcals), greenhouse=fl(i1.greenhouse_kcals_equivalent.kcals),
                outdoor_immediate=fl(i1.immediate_outdoor_crops_kcals_equivalent.kcals),
                outdoor_new_stored=fl(i1.new_stored_outdoor_crops_kcals_equivalent.kcals),
                stored_food=fl(i1.stored_food_kcals_equivalent.kcals), methane_scp=fl(i1.scp_kcals_equivalent.kcals),
                cellulosic_sugar=fl(i1.cell_sugar_kcals_equivalent.kcals), seaweed=fl(i1.seaweed_kcals_equivalent.kcals))
            CAP["fillmin"] = dict(T=float(constants_inputs["MINIMUM_PERCENT_FED_BEFORE_NONHUMAN_CONSUMPTION_ALLOWED"]),
                                  pf1=float(i1.percent_people_fed), kd=float(constants_inputs["NUTRITION"]["KCALS_DAILY"]),
                                  avail=avail, out={k: fl(v.kcals) for k, v in r.items()})
        return r

    Parameters.calculate_human_consumption_for_min_needs = w_min

    o_ret = Parameters.get_second_round_kcals_with_redistributed_meat

    def w_ret(self, round_1_meat_kcals, round_2_meat_kcals, milk1, milk2):
        m1, m2 = fl(round_1_meat_kcals), fl(round_2_meat_kcals)
        r = o_ret(self, round_1_meat_kcals, round_2_meat_kcals, milk1, milk2)
        if CAP is not None:
            CAP["retime"] = dict(meat1=m1, meat2=m2, out=fl(r))
        return r

    Parameters.get_second_round_kcals_with_redistributed_meat = w_ret

    o_bump = Parameters.increase_biofuels_then_feed

    def w_bump(self, biofuel, feed, increase, max_biofuel, max_feed, total_crops_available):
        args = dict(biofuel=fl(biofuel), feed=fl(feed), increase=fl(increase), max_biofuel=fl(max_biofuel),
                    max_feed=fl(max_feed), avail=fl(total_crops_available))
        r = o_bump(self, biofuel, feed, increase, max_biofuel, max_feed, total_crops_available)
        if CAP is not None:
            CAP["bump"] = dict(args=args, out_biofuel=fl(r[0]), out_feed=fl(r[1]))
        return r

    Parameters.increase_biofuels_then_feed = w_bump

    # ---- LP solves
    o_solve = pulp.LpProblem.solve

    def w_solve(self, *a, **k):
        st = o_solve(self, *a, **k)
        if CAP is not None:
            CAP["solves"].append(int(st))
        return st

    pulp.LpProblem.solve = w_solve

    o_h = Optimizer.optimize_to_humans
    o_a = Optimizer.optimize_feed_to_animals

    def w_h(self, consts, tc):
        r = o_h(self, consts, tc)
        if CAP is not None:
            CAP["lp_pending"] = lp_obs(self, "H", r[1], r[3])
        return r

    def w_a(self, consts, tc, min_cons):
        r = o_a(self, consts, tc, min_cons)
        if CAP is not None:
            CAP["lp_pending"] = lp_obs(self, "A", r[1], r[3], min_cons)
        return r

    Optimizer.optimize_to_humans = w_h
    Optimizer.optimize_feed_to_animals = w_a

    o_run = ScenarioRunner.run_optimizer

    def w_run(self, consts_for_optimizer, time_consts, optimization_type=None, min_human_food_consumption=None, title="Untitled"):
        n0 = len(CAP["solves"]) if CAP is not None else 0
        r = o_run(self, consts_for_optimizer, time_consts, optimization_type, min_human_food_consumption, title)
        if CAP is not None:
            rnd = int(title[-1]) if title[-6:-1] == "round" else 0
            lp = CAP.pop("lp_pending", None)
            if lp is not None:
                lp["round"] = rnd
                lp["statuses"] = CAP["solves"][n0:]
                CAP["lps"].append(lp)
            CAP["interp"].append(interp_obs(r, rnd, title))
            CAP.setdefault("interp_objs", []).append(r)
        return r

    ScenarioRunner.run_optimizer = w_run

    # ---- validators
    for nm in dir(Validator):
        f = Validator.__dict__.get(nm)
        if nm.startswith("_") or f is None:
            continue
        is_static = isinstance(f, staticmethod)
        fn = f.__func__ if is_static else f
        if not callable(fn):
            continue

        def mk(fn, nm, is_static):
            def w(*a, **k):
                buf = io.StringIO()
                try:
                    with contextlib.redirect_stdout(buf):
                        r = fn(*a, **k)
                    ok = True
                    return r
                except BaseException:
                    ok = False
                    raise
                finally:
                    if CAP is not None:
                        txt = buf.getvalue()
                        CAP["validators"].append(dict(name=nm, ok=ok, banner=("ASSERT FAILED" in txt or "starving in round 3" in txt)))
                    sys.stdout.write(buf.getvalue())
            return staticmethod(w) if is_static else w

        setattr(Validator, nm, mk(fn, nm, is_static))


def series_sha(i):
    """digest of every series of a result object (all three nutrient parts, plain arrays): they are compared for identity"""
    import hashlib
    hs = hashlib.sha256()
    for name in sorted(vars(i)):
        o = getattr(i, name)
        if hasattr(o, "kcals") and hasattr(o, "fat") and hasattr(o, "protein"):
            for part in (o.kcals, o.fat, o.protein):
                hs.update(name.encode())
                hs.update(np.ascontiguousarray(np.asarray(part, dtype=float)).tobytes())
        elif isinstance(o, np.ndarray) and o.dtype.kind in "fi":
            hs.update(name.encode())
            hs.update(np.ascontiguousarray(o.astype(float)).tobytes())
    return hs.hexdigest()


REPORTED = ["stored_food", "outdoor_crops", "seaweed", "cell_sugar", "scp", "greenhouse", "fish", "meat", "milk", "immediate_outdoor_crops",
            "new_stored_outdoor_crops"]


def reported_sha(i):
    """digest of what a result reports about people's consumption (per-food percent and kcals-equivalent series, monthly total);
    the feed / biofuel sums of the feed round are deliberately clipped by the runner afterwards and are not part of it"""
    import hashlib
    hs = hashlib.sha256()
    for name in [n for n in REPORTED] + [n + "_kcals_equivalent" for n in REPORTED]:
        o = getattr(i, name, None)
        if o is not None and hasattr(o, "kcals"):
            hs.update(name.encode())
            hs.update(np.ascontiguousarray(np.asarray(o.kcals, dtype=float)).tobytes())
    hs.update(np.ascontiguousarray(np.asarray(i.kcals_fed, dtype=float)).tobytes())
    return hs.hexdigest()


def interp_obs(i, rnd, title):
    def k(name):
        o = getattr(i, name, None)
        return None if o is None else fl(o.kcals)

    pf = dict(stored_food=k("stored_food"), outdoor_crops=k("outdoor_crops"), seaweed=k("seaweed"), seaweed_rounded=k("seaweed_rounded"),
              cell_sugar=k("cell_sugar"), scp=k("scp"), greenhouse=k("greenhouse"), fish=k("fish"), meat=k("meat"), milk=k("milk"),
              immediate_outdoor_crops=k("immediate_outdoor_crops"), new_stored_outdoor_crops=k("new_stored_outdoor_crops"))
    keq = {nm: k(nm + "_kcals_equivalent") for nm in ("stored_food", "seaweed", "cell_sugar", "scp", "greenhouse", "fish", "meat", "milk",
                                                      "immediate_outdoor_crops", "new_stored_outdoor_crops")}
    # what the result says went to feed and to biofuel, per food (kcals per person per day)
    use_keq = {f: dict(feed=k(f + "_feed_kcals_equivalent"), bio=k(f + "_biofuels_kcals_equivalent"))
               for f in ("stored_food", "outdoor_crops", "seaweed", "cell_sugar", "scp")}
    csv = None
    import re
    fn = os.path.join("results", re.sub(r'[\\/*?:"<>|\n]', "_", title) + "_ykcals.csv")
    if os.path.exists(fn):
        import pandas as pd
        try:
            df = pd.read_csv(fn, index_col=0)
            csv = {c: [float(v) for v in df[c].values] for c in df.columns}
        except BaseException:  # not a clean table (e.g. repeated header lines): reported by C04 as CsvEqualsResult
            csv = None
        # (the file is left in place: a later run with the same title must overwrite it, not inherit from it)
    sha = series_sha(i)
    return dict(round=rnd, pf=float(i.percent_people_fed), kcals_fed=fl(i.kcals_fed), percent=pf, kcals_eq=keq, use_keq=use_keq, csv=csv, all_series_sha=sha, reported_sha=reported_sha(i),
                feed_sum_keq=k("feed_sum_kcals_equivalent"), bio_sum_keq=k("biofuels_sum_kcals_equivalent"),
                feed_sum=k("feed_sum"), bio_sum=k("biofuels_sum") if hasattr(i, "biofuels_sum") else None)


def run_world(opts, title, figures=False):
    """the world aggregate, run the way plot_manuscript_figures.call_global_scenario_runner does (title None: the caller gives none)"""
    import pandas as pd
    from src.scenarios.run_scenario import ScenarioRunner

    sr = ScenarioRunner()
    c, t, loader = sr.set_depending_on_option(opts)
    tab = pd.read_csv("data/no_food_trade/computer_readable_combined.csv")
    country_data = tab.iloc[-1]
    kw = {} if title is None else dict(title=title)
    r = sr.run_and_analyze_scenario(c, t, loader, create_pptx_with_all_countries=False, show_country_figures=figures,
                                    figure_save_postfix="_world", country_data=country_data, save_all_results=False,
                                    country_name="world", country_iso3="WOR", **kw)
    return [None, float(c["POP"]), float(c["POP"]) * min(1.0, r.percent_people_fed / 100), {"world": r}]


_RUNNER = []


def the_runner(cls):
    """one runner object for all the by-country calls of a process, the way run_many_options reuses its runner"""
    if not _RUNNER:
        _RUNNER.append(cls())
    return _RUNNER[0]


def run_job(job):
    global CAP
    from src.scenarios.run_model_no_trade import ScenarioRunnerNoTrade

    install()
    CAP = dict(herds=[], solves=[], lps=[], interp=[], validators=[])
    cap = CAP
    buf = io.StringIO()
    t0 = time.time()
    rec = dict(job=job)
    opts = dict(job["options"])
    if job.get("prelude"):
        # a history: the same title is first run with other options (results/ then already holds tables of that title)
        try:
            with contextlib.redirect_stdout(io.StringIO()), contextlib.redirect_stderr(io.StringIO()):
                pre = dict(job["prelude"])
                if job["cc"] == "WOR":
                    run_world(pre, "v%d_WOR_%s" % (os.getpid(), job["preset"]))
                else:
                    the_runner(ScenarioRunnerNoTrade).run_model_no_trade(
                        title="v%d_%s_%s" % (os.getpid(), job["cc"], job["preset"]), create_pptx_with_all_countries=False, scenario_option=pre,
                        countries_list=[job["cc"]], return_results=True, save_all_results=True)
        except BaseException:
            pass
        CAP = dict(herds=[], solves=[], lps=[], interp=[], validators=[])
        cap = CAP
    try:
        with contextlib.redirect_stdout(buf), contextlib.redirect_stderr(buf):
            if job["cc"] == "WOR":
                out = run_world(opts, None if job.get("untitled") else "v%d_WOR_%s" % (os.getpid(), job["preset"]), bool(job.get("figures")))
            else:
                if job.get("with"):
                    # one by-country call over several countries (one option dictionary for all of them); only the
                    # observations of the job's own country are kept
                    orig_rofc = ScenarioRunnerNoTrade.run_optimizer_for_country

                    def w_rofc(self, country_data, *a, **k):
                        global CAP
                        if country_data["iso3"] == job["cc"]:
                            CAP = cap
                        else:
                            CAP = dict(herds=[], solves=[], lps=[], interp=[], validators=[])
                        try:
                            return orig_rofc(self, country_data, *a, **k)
                        finally:
                            CAP = cap

                    ScenarioRunnerNoTrade.run_optimizer_for_country = w_rofc
                    try:
                        out = the_runner(ScenarioRunnerNoTrade).run_model_no_trade(
                            title="v%d_%s_%s" % (os.getpid(), job["cc"], job["preset"]), create_pptx_with_all_countries=False,
                            scenario_option=opts, countries_list=list(job["with"]) + [job["cc"]], return_results=True, save_all_results=True)
                    finally:
                        ScenarioRunnerNoTrade.run_optimizer_for_country = orig_rofc
                else:
                    out = the_runner(ScenarioRunnerNoTrade).run_model_no_trade(
                        title="v%d_%s_%s" % (os.getpid(), job["cc"], job["preset"]), create_pptx_with_all_countries=False, scenario_option=opts,
                        countries_list=[job["cc"]], return_results=True, save_all_results=True, show_country_figures=bool(job.get("figures")))
        rec["ok"] = True
        # every table the run saved for the job's own country (asked for the way the web interface does), by content
        try:
            import glob as _glob
            import hashlib as _hl
            if job["cc"] != "WOR" and isinstance(out[3], dict):
                ttl = "v%d_%s_%s" % (os.getpid(), job["cc"], job["preset"])
                names = [k for k, v_ in out[3].items() if getattr(v_, "constants", {}).get("inputs", {}).get("COUNTRY_CODE") == job["cc"]] or list(out[3].keys())[-1:]
                saved = {}
                for nm_ in names:
                    for f_ in sorted(_glob.glob(os.path.join("results", "%s_%s_*.csv" % (ttl, nm_)))):
                        saved[os.path.basename(f_)[len(ttl) + 1 + len(nm_) + 1:]] = _hl.sha256(open(f_, "rb").read()).hexdigest()[:16]
                rec["saved_tables"] = saved
                # ... and for the countries that ran in the same call before it (a table of theirs is final once it is written)
                others = {}
                for nm_, v_ in out[3].items():
                    if nm_ in names:
                        continue
                    code_ = getattr(v_, "constants", {}).get("inputs", {}).get("COUNTRY_CODE") or nm_
                    others[code_] = {os.path.basename(f_)[len(ttl) + 1 + len(nm_) + 1:]: _hl.sha256(open(f_, "rb").read()).hexdigest()[:16]
                                     for f_ in sorted(_glob.glob(os.path.join("results", "%s_%s_*.csv" % (ttl, nm_))))}
                if others:
                    rec["saved_tables_of_others"] = others
        except BaseException as _ex:  # noqa
            rec["saved_tables"] = "unreadable: " + repr(_ex)[:80]
        world_map = None
        try:
            if out[0] is not None and hasattr(out[0], "columns") and "needs_ratio" in out[0].columns:
                # the map that comes back with the results: which countries carry a value, and which
                wm = out[0][["iso_a3", "needs_ratio"]].dropna()
                world_map = sorted([str(a), float(b)] for a, b in zip(wm["iso_a3"], wm["needs_ratio"]))
        except BaseException:
            world_map = "unreadable"
        rec["returned"] = dict(world=None if out[0] is None else "obj", world_map=world_map, net_pop=fl(out[1]), net_pop_fed=fl(out[2]),
                               keys=sorted(out[3].keys()) if isinstance(out[3], dict) else None)
    except BaseException as e:  # includes SystemExit raised by sys.exit() in the model
        rec["ok"] = False
        rec["exc"] = repr(e)[:300]
        rec["tb"] = traceback.format_exc()[-1200:]
    finally:
        CAP = None
    rec["wall"] = round(time.time() - t0, 2)
    return fill_rec(rec, cap, buf.getvalue(), job)


def fill_rec(rec, cap, txt, job):
    rec["flags"] = dict(skip2="Skipping round 2" in txt, skip12="Skipped rounds 1 and 2" in txt, patched="cannot run" in txt,
                        banner_feed="ASSERT FAILED" in txt, banner_r3="starving in round 3" in txt)
    rec["solves"] = cap["solves"]
    rec["lps"] = cap["lps"]
    rec["interp"] = cap["interp"]
    # the headline as it stands when the whole run is over (what the caller is left with), next to the one at interpretation time
    for ob, o in zip(cap["interp"], cap.get("interp_objs", [])):
        try:
            ob["pf_at_interpretation"] = ob["pf"]
            ob["pf"] = float(o.percent_people_fed)
            # ... and whether the result object still holds the series it held when it was interpreted
            ob["series_unchanged_afterwards"] = (reported_sha(o) == ob["reported_sha"])
        except BaseException:
            pass
    rec["validators"] = cap["validators"]
    rec["kcals_per_head"] = cap.get("kcals_per_head")
    for k in ("fillmin", "retime", "bump"):
        rec[k] = cap.get(k)
    p1 = cap.get("params_1")
    if p1 is not None:
        ci = p1[0]["inputs"]
        rec["inputs"] = dict(
            T=float(ci["MINIMUM_PERCENT_FED_BEFORE_NONHUMAN_CONSUMPTION_ALLOWED"]), POP=float(ci["POP"]),
            KCALS_DAILY=float(ci["NUTRITION"]["KCALS_DAILY"]),
            feed_shutoff=int(ci["DELAY"]["FEED_SHUTOFF_MONTHS"]), biofuel_shutoff=int(ci["DELAY"]["BIOFUEL_SHUTOFF_MONTHS"]),
            milk_yield=float(ci["MILK_YIELD_KG_PER_MILK_BEARING_ANIMAL_PER_YEAR"]), add_milk=bool(ci["ADD_MILK"]), add_meat=bool(ci["ADD_MEAT"]),
            waste_dist_meat=float(ci["WASTE_DISTRIBUTION"]["MEAT"]), waste_dist_milk=float(ci["WASTE_DISTRIBUTION"]["MILK"]),
            waste_retail=float(ci["WASTE_RETAIL"]), NMONTHS=int(ci["NMONTHS"]),
            kg_meat_per_chicken=float(ci["KG_MEAT_PER_CHICKEN"]), kg_meat_per_pig=float(ci["KG_MEAT_PER_PIG"]),
            kg_meat_per_large_animal=float(job["options"].get("kg_meat_per_large_animal", 269.7)),
            feed_kcals_year=float(ci["FEED_KCALS"]), biofuel_kcals_year=float(ci["BIOFUEL_KCALS"]),
            grass_ratio=[float(ci.get("RATIO_GRASSES_YEAR%d" % i, float("nan"))) for i in range(1, int(ci["NMONTHS"]) // 12 + 1)])
        rec["demand"] = dict(feed=fl(p1[4].kcals), biofuel=fl(p1[5].kcals))
    # herds -> rounds. The herd object whose results feed a round is identified by object identity with the
    # CalculateFeedAndMeat handed on by compute_parameters_*, never by order.
    herds = cap["herds"]
    rec["herds"] = [{k: v for k, v in h.items() if k != "oid"} for h in herds]
    rec["phases_with_params"] = [i for i in (1, 2, 3) if cap.get("params_%d" % i) is not None]
    p2 = cap.get("params_2")
    rec["round2_skipped_meat_lower"] = bool(p2 is not None and p2[0] is None)
    return rec


def run_yaml_job(job):
    """one call of the yaml front end (run_scenarios_from_yaml) with several simulations for one country list; one record per
    simulation.  job["yaml"] = {"NMONTHS": settings-level horizon, "sims": [{"name", "preset", "options"}, ...]}"""
    global CAP
    from src.scenarios import run_scenarios_from_yaml as fe
    from src.scenarios.run_model_no_trade import ScenarioRunnerNoTrade

    install()
    sims = job["yaml"]["sims"]
    caps = {}
    bufs = {}
    oks = {}
    config = dict(settings=dict(countries=[job["cc"]], NMONTHS=job["yaml"]["NMONTHS"]),
                  simulations={sm["name"]: dict(copy.deepcopy(sm["options"]), title="v%d_%s_%s" % (os.getpid(), job["cc"], sm["name"])) for sm in sims})
    by_title = {v["title"]: k for k, v in config["simulations"].items()}
    orig = ScenarioRunnerNoTrade.run_model_no_trade

    def w_run(self, *a, **k):
        global CAP
        name = by_title.get(k.get("title"))
        CAP = caps.setdefault(name, dict(herds=[], solves=[], lps=[], interp=[], validators=[]))
        bufs[name] = io.StringIO()
        try:
            with contextlib.redirect_stdout(bufs[name]), contextlib.redirect_stderr(bufs[name]):
                r = orig(self, *a, **k)
            oks[name] = (True, None, None)
            return r
        except BaseException as e:
            oks[name] = (False, repr(e)[:300], traceback.format_exc()[-1200:])
            raise
        finally:
            CAP = None

    ScenarioRunnerNoTrade.run_model_no_trade = w_run
    try:
        with contextlib.redirect_stdout(io.StringIO()), contextlib.redirect_stderr(io.StringIO()):
            fe.run_scenarios_from_yaml(config, False, False, True)
    except BaseException:
        pass  # recorded per simulation; the simulations after a failing one do not run
    finally:
        ScenarioRunnerNoTrade.run_model_no_trade = orig
        CAP = None
    recs = []
    for sm in sims:
        sub = dict(cc=job["cc"], preset=sm["preset"], options=sm["options"], via="yaml", position=len(recs))
        rec = dict(job=sub)
        if sm["name"] not in oks:
            rec.update(ok=False, exc="not run: an earlier simulation of the call failed", skipped=True)
            recs.append(rec)
            continue
        ok, exc, tb = oks[sm["name"]]
        rec["ok"] = ok
        if not ok:
            rec["exc"], rec["tb"] = exc, tb
        recs.append(fill_rec(rec, caps[sm["name"]], bufs[sm["name"]].getvalue(), sub))
    return recs


def main():
    jobs = json.load(open(sys.argv[1]))
    with gzip.open(sys.argv[2], "wt") as fh:
        for job in jobs:
            try:
                recs = run_yaml_job(job) if job.get("yaml") else [run_job(job)]
            except BaseException as e:  # recorder failure (machinery), kept apart from model failures
                recs = [dict(job=job, ok=False, recorder_error=repr(e)[:300], tb=traceback.format_exc()[-1500:])]
            for rec in recs:
                fh.write(json.dumps(rec) + "\n")
            fh.flush()


if __name__ == "__main__":
    main()
