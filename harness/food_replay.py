"""Spec -> code for C11: replays every transition emitted by FoodAlgebra.tla on real Food objects.
Runs with cwd = scratch copy. argv: cases.ndjson report.json"""
import copy
import json
import os
import sys
from fractions import Fraction

import numpy as np

sys.path.insert(0, os.getcwd())

BIN_PREDS = ["all_greater_than", "all_less_than", "any_greater_than", "any_less_than",
             "all_greater_than_or_equal_to", "all_less_than_or_equal_to", "any_greater_than_or_equal_to",
             "any_less_than_or_equal_to", "__eq__", "__ne__"]
UN_PREDS = ["all_equals_zero", "any_equals_zero", "all_greater_than_zero", "any_greater_than_zero",
            "all_greater_than_or_equal_to_zero", "is_never_negative"]


CONVERT = {"ConvertA": ("billion kcals", "million tons", "thousand tons"), "ConvertB": ("billion kcals", "thousand tons", "million tons"),
           "ConvertC": ("billion kcals", "million tons", "million tons")}


def fr(q):
    return Fraction(q[0], q[1])


def mk(Food, v, as_series=False):
    lab, suf = v["lab"], v["suf"]
    if v["sh"] == "S":
        k, f, p = [float(fr(q)) for q in v["n"]]
        if as_series:
            return Food(np.array([k]), np.array([f]), np.array([p]), lab[0] + " each month", lab[1] + " each month",
                        lab[2] + " each month")
        return Food(k, f, p, lab[0] + suf, lab[1] + suf, lab[2] + suf)
    arrs = [np.array([float(fr(q)) for q in row]) for row in v["n"]]
    return Food(arrs[0], arrs[1], arrs[2], lab[0] + suf, lab[1] + suf, lab[2] + suf)


def snap(o):
    return (copy.deepcopy(o.kcals), copy.deepcopy(o.fat), copy.deepcopy(o.protein), o.kcals_units, o.fat_units,
            o.protein_units, list(o.units))


def same_snap(s1, s2):
    return (np.array_equal(np.asarray(s1[0]), np.asarray(s2[0])) and np.array_equal(np.asarray(s1[1]), np.asarray(s2[1]))
            and np.array_equal(np.asarray(s1[2]), np.asarray(s2[2])) and s1[3:] == s2[3:])


def project(o):
    series = isinstance(o.kcals, (list, np.ndarray))
    return dict(sh="L" if series else "S", labels=[o.kcals_units, o.fat_units, o.protein_units], units=list(o.units),
                n=[np.asarray(x, dtype=float).tolist() for x in (o.kcals, o.fat, o.protein)])


def expected(r):
    lab = [b + r["suf"] for b in r["lab"]]
    if r["sh"] == "S":
        n = [float(fr(q)) for q in r["n"]]
    else:
        n = [[float(fr(q)) for q in row] for row in r["n"]]
    return dict(sh=r["sh"], labels=lab, units=lab, n=n)


def close(x, y):
    x = np.asarray(x, dtype=float)
    y = np.asarray(y, dtype=float)
    return x.shape == y.shape and bool(np.all(np.abs(x - y) <= 1e-9 * np.maximum(1.0, np.abs(y))))


def apply_op(Food, op, x, y):
    if op == "Add":
        return x + y
    if op == "Sub":
        return x - y
    if op == "MinElem":
        return Food.min_elementwise(x, y)
    if op == "DivFood":
        return x / y
    if op == "MulFood":
        return x * y
    if op == "DivNum":
        return x / 2
    if op == "MulNum":
        return x * 3
    if op == "RMulNum":
        return 3 * x
    if op == "Neg":
        return -x
    if op == "Abs":
        return x.get_abs_values()
    if op == "NegToZero":
        return x.negative_values_to_zero()
    if op == "GetMonth":
        return x.get_month(1)
    if op == "GetItem":
        return x[1]
    if op == "GetItemNp":
        return x[np.int64(1)]
    if op in ("Sum", "Sum1"):
        return x.get_nutrients_sum()
    if op == "MinAll1":
        return x.get_min_all_months()
    if op == "MaxAll1":
        return x.get_max_all_months()
    if op == "GetMonth0":
        return x.get_month(0)
    if op == "Running1":
        return x.get_running_total_nutrients_sum()
    if op == "MinAll":
        return x.get_min_all_months()
    if op == "MaxAll":
        return x.get_max_all_months()
    if op == "Running":
        return x.get_running_total_nutrients_sum()
    if op == "Shift1":
        return x.shift(1)
    if op == "ShiftN":
        return x.shift(2)
    if op == "ShiftMore":
        return x.shift(3)
    if op == "Slice":
        return x[0:2]
    if op == "Round":
        return x.get_rounded_to_decimal(3)
    if op == "MulArr":
        return x * np.array([1.0, 2.0])
    if op in CONVERT:
        return x.in_units(*CONVERT[op])
    raise KeyError(op)


def main():
    from src.food_system.food import Food

    Food.conversions.set_nutrition_requirements(2100, 47, 51, True, True, 1e7)
    seen = set()
    rep = dict(transitions=0, by_op={}, compares=0, mismatches=[], n_mismatch=0)

    def bad(key, detail):
        rep["n_mismatch"] += 1
        if sum(1 for m in rep["mismatches"] if m["key"] == key) < 3:
            rep["mismatches"].append(dict(key=key, **detail))

    for line in open(sys.argv[1]):
        c = json.loads(line)
        k = json.dumps([c["op"], c["x"], c["y"] if c["op"] in ("Add", "Sub", "MinElem", "DivFood", "MulFood", "Compare") else None],
                       sort_keys=True)
        if k in seen:
            continue
        seen.add(k)
        op = c["op"]
        if op == "Compare":
            rep["compares"] += 1
            compare_case(Food, c, bad)
            continue
        rep["transitions"] += 1
        rep["by_op"][op] = rep["by_op"].get(op, 0) + 1
        Food.conversions.set_nutrition_requirements(2100, 47, 51, True, True, 1e7)
        if op == "Construct":
            cx = c["x"]
            arrs = [np.array([float(fr(q)) for q in row]) for row in cx["n"]]
            labs = [cx["lab"][i] + (" each month" if cx["given"][i] else "") for i in range(3)]
            try:
                got = project(Food(arrs[0], arrs[1], arrs[2], labs[0], labs[1], labs[2]))
            except BaseException as ex:  # noqa
                bad("Construct:exception", dict(case=c, exc=repr(ex)[:120]))
                continue
            want = expected(c["r"])
            if got["units"] != got["labels"]:
                bad("LabelListAgrees:Construct", dict(case=c, got=got))
            if got["labels"] != want["labels"] or got["sh"] != want["sh"] or not close(got["n"], want["n"]):
                bad("Labels:Construct", dict(case=c, got=got, want=want))
            continue
        x, y = mk(Food, c["x"]), mk(Food, c["y"])
        sx, sy = snap(x), snap(y)
        try:
            with np.errstate(all="ignore"):
                r = apply_op(Food, op, x, y)
            got = project(r)
        except AssertionError:
            got = "Reject"
        except BaseException as ex:  # noqa
            got = "Error:" + repr(ex)[:120]
        want = "Reject" if c["r"]["sh"] == "Reject" else expected(c["r"])
        ratio_side = ""
        if op == "MulFood":
            rx, ry = c["x"]["lab"][0] == "ratio", c["y"]["lab"][0] == "ratio"
            ratio_side = ":" + ("both" if rx and ry else "ratio-left" if rx else "ratio-right" if ry else "no-ratio") + \
                         ":" + c["x"]["sh"] + c["y"]["sh"]
        if not same_snap(sx, snap(x)) or (op in ("Add", "Sub", "MinElem", "DivFood", "MulFood") and not same_snap(sy, snap(y))):
            bad("OperandsUnchanged:%s" % op, dict(case=c))
        if want == "Reject":
            if got != "Reject":
                bad("MixedUnitsRejected:%s%s" % (op, ratio_side), dict(case=c, got=got))
            elif op in ("Add", "Sub", "MinElem", "DivFood"):
                # ... whichever nutrients are counted: units are units
                for inc_f, inc_p in ((False, False), (True, False)):
                    Food.conversions.set_nutrition_requirements(2100, 47, 51, inc_f, inc_p, 1e7)
                    try:
                        with np.errstate(all="ignore"):
                            apply_op(Food, op, mk(Food, c["x"]), mk(Food, c["y"]))
                        bad("MixedUnitsRejected:%s:flags-off" % op, dict(case=c, flags=[inc_f, inc_p]))
                    except AssertionError:
                        pass
                    except BaseException as ex:  # noqa
                        bad("UnexpectedError:%s:flags-off" % op, dict(case=c, exc=repr(ex)[:100]))
                Food.conversions.set_nutrition_requirements(2100, 47, 51, True, True, 1e7)
            continue
        if got == "Reject" and c.get("mayRefuse"):
            rep["refused_named_limitation"] = rep.get("refused_named_limitation", 0) + 1
            continue  # named limitation: refusing is allowed, a wrong answer is not
        if isinstance(got, str):
            bad("Unexpected%s:%s%s" % ("Reject" if got == "Reject" else "Error", op, ratio_side), dict(case=c, got=got))
            continue
        if got["units"] != got["labels"]:
            bad("LabelListAgrees:%s%s" % (op, ratio_side), dict(case=c, got=got, want=want))
        if got["labels"] != want["labels"]:
            bad("Labels:%s%s" % (op, ratio_side), dict(case=c, got=got, want=want))
        if got["sh"] != want["sh"]:
            bad("Shape:%s" % op, dict(case=c, got=got, want=want))
        elif not close(got["n"], want["n"]):
            bad("Numbers:%s" % op, dict(case=c, got=got, want=want))
        # ... and the same result whichever nutrients the run counts (labels and numbers are not a matter of the flags)
        if op not in ("Add", "Sub", "MinElem", "DivFood", "MulFood") or rep["transitions"] % 7 == 0:
            for inc_f, inc_p in ((False, False), (False, True)):
                Food.conversions.set_nutrition_requirements(2100, 47, 51, inc_f, inc_p, 1e7)
                try:
                    with np.errstate(all="ignore"):
                        g2 = project(apply_op(Food, op, mk(Food, c["x"]), mk(Food, c["y"])))
                except BaseException as ex:  # noqa
                    g2 = "Error:" + repr(ex)[:100]
                rep["flag_variants"] = rep.get("flag_variants", 0) + 1
                if isinstance(g2, str) or g2["labels"] != want["labels"] or g2["sh"] != want["sh"] or not close(g2["n"], want["n"]):
                    bad("SameWhicheverNutrientsCount:%s" % op, dict(case=c, flags=[inc_f, inc_p], got=g2, want=want))
            Food.conversions.set_nutrition_requirements(2100, 47, 51, True, True, 1e7)
    # the unary predicates near their numeric boundaries: a single value and the one-month series of it must agree
    for inc_f in (False, True):
        for inc_p in (False, True):
            Food.conversions.set_nutrition_requirements(2100, 47, 51, inc_f, inc_p, 1e7)
            for v in (6e-10, 4e-10, 1e-9, -6e-10, 6e-4, 4e-4, 0.0, 1e-12):
                for which in range(3):
                    nums = [0.0, 0.0, 0.0]
                    nums[which] = v
                    sc = Food(nums[0], nums[1], nums[2])
                    se = Food(np.array([nums[0]]), np.array([nums[1]]), np.array([nums[2]]))
                    for name, args in [(n_, ()) for n_ in UN_PREDS] + [("all_equals_zero", (3,))]:
                        try:
                            a_, b_ = bool(getattr(sc, name)(*args)), bool(getattr(se, name)(*args))
                        except BaseException as ex:  # noqa
                            bad("ScalarEqualsOneMonthSeries:%s:exception" % name, dict(v=v, exc=repr(ex)[:100]))
                            continue
                        rep["compares"] += 1
                        if a_ != b_:
                            bad("ScalarEqualsOneMonthSeries:%s:boundary" % name, dict(value=v, nutrient=which, flags=[inc_f, inc_p], scalar=a_, series=b_))
            # the comparison predicates where one nutrient ties and the others are strictly apart: a single value and the one-month
            # series of it agree; and a predicate, whatever the shapes of its operands, leaves them as they were
            for which in range(3):
                for d1, d2 in ((1.0, 1.0), (-1.0, -1.0), (1.0, -1.0), (0.0, 1.0), (0.0, 0.0)):
                    xs, ys = [10.0, 10.0, 10.0], [10.0, 10.0, 10.0]
                    o1, o2 = [i for i in range(3) if i != which]
                    xs[o1] += d1
                    xs[o2] += d2
                    for name in BIN_PREDS:
                        res = []
                        for series in (False, True):
                            w = (lambda q: np.array([q])) if series else (lambda q: q)
                            u = "billion kcals each month" if series else "billion kcals"
                            t = "thousand tons each month" if series else "thousand tons"
                            x_, y_ = Food(w(xs[0]), w(xs[1]), w(xs[2]), u, t, t), Food(w(ys[0]), w(ys[1]), w(ys[2]), u, t, t)
                            try:
                                res.append(bool(getattr(x_, name)(y_)))
                            except BaseException as ex:  # noqa
                                res.append("Error:" + repr(ex)[:80])
                        rep["compares"] += 1
                        if res[0] != res[1]:
                            bad("ScalarEqualsOneMonthSeries:%s:tie" % name, dict(x=xs, y=ys, tie=which, flags=[inc_f, inc_p], scalar=res[0], series=res[1]))
                        # mixed shapes (refusing is fine, touching the operands is not)
                        for sx, sy in ((False, True), (True, False)):
                            mkf = lambda vals, ser: Food(*( [np.array([q, q]) for q in vals] if ser else list(vals) ),
                                                         *(("billion kcals each month", "thousand tons each month", "thousand tons each month") if ser
                                                           else ("billion kcals", "thousand tons", "thousand tons")))
                            x_, y_ = mkf(xs, sx), mkf(ys, sy)
                            b1, b2 = snap(x_), snap(y_)
                            try:
                                getattr(x_, name)(y_)
                            except BaseException:  # noqa
                                pass
                            if not same_snap(b1, snap(x_)) or not same_snap(b2, snap(y_)):
                                bad("OperandsUnchanged:%s:mixed-shapes" % name, dict(x=xs, y=ys, shapes=[sx, sy], flags=[inc_f, inc_p]))
                            for o_ in (x_, y_):
                                if list(o_.units) != [o_.kcals_units, o_.fat_units, o_.protein_units]:
                                    bad("LabelListAgrees:%s:mixed-shapes" % name, dict(x=xs, y=ys, shapes=[sx, sy], units=list(o_.units)))
    # ... and the clipping helper that takes a single-valued replacement
    for ser_repl in (False, True):
        a_ = Food(np.array([0.0, 1.0]), np.array([0.0, 1.0]), np.array([0.0, 1.0]), "billion kcals each month", "thousand tons each month", "thousand tons each month")
        r_ = (Food(np.array([5.0, 5.0]), np.array([5.0, 5.0]), np.array([5.0, 5.0]), "billion kcals each month", "thousand tons each month", "thousand tons each month")
              if ser_repl else Food(5.0, 5.0, 5.0, "billion kcals", "thousand tons", "thousand tons"))
        b1, b2 = snap(a_), snap(r_)
        try:
            a_.replace_if_list_with_zeros_is_zero(a_, r_)
        except BaseException:  # noqa
            pass
        if not same_snap(b2, snap(r_)) or list(r_.units) != [r_.kcals_units, r_.fat_units, r_.protein_units]:
            bad("OperandsUnchanged:replace_if_list_with_zeros_is_zero", dict(series_replacement=ser_repl, units=list(r_.units)))
    Food.conversions.set_nutrition_requirements(2100, 47, 51, True, True, 1e7)
    json.dump(rep, open(sys.argv[2], "w"))


def compare_case(Food, c, bad):
    """scalar (x, y) vs one-month series (<<x>>, <<y>>) under the four flag settings."""
    same = c["r"]["sh"] != "Reject"
    for inc_f in (False, True):
        for inc_p in (False, True):
            Food.conversions.set_nutrition_requirements(2100, 47, 51, inc_f, inc_p, 1e7)
            for name in BIN_PREDS:
                res = []
                for series in (False, True):
                    x, y = mk(Food, c["x"], series), mk(Food, c["y"], series)
                    if series and not same and c["x"]["lab"] == c["y"]["lab"]:
                        # units that differ only in the suffix become equal as one-month series: nothing to refuse
                        res.append("Reject")
                        continue
                    try:
                        res.append(bool(getattr(x, name)(y)))
                    except AssertionError:
                        res.append("Reject")
                    except BaseException as ex:  # noqa
                        res.append("Error:" + repr(ex)[:80])
                if not same:
                    for form, r in zip(("scalar", "series"), res):
                        if r != "Reject":
                            bad("MixedUnitsRejected:%s:%s" % (name, form), dict(case=c, flags=[inc_f, inc_p], got=res))
                elif res[0] != res[1]:
                    bad("ScalarEqualsOneMonthSeries:%s" % name, dict(case=c, flags=[inc_f, inc_p], scalar=res[0], series=res[1]))
            if same:
                for name in UN_PREDS:
                    res = []
                    for series in (False, True):
                        x = mk(Food, c["x"], series)
                        try:
                            res.append(bool(getattr(x, name)()))
                        except BaseException as ex:  # noqa
                            res.append("Error:" + repr(ex)[:80])
                    if res[0] != res[1]:
                        bad("ScalarEqualsOneMonthSeries:%s" % name, dict(case=c, flags=[inc_f, inc_p], scalar=res[0], series=res[1]))
    Food.conversions.set_nutrition_requirements(2100, 47, 51, True, True, 1e7)


if __name__ == "__main__":
    main()
