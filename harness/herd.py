"""C06 / C07: Herd.tla — exhaustive (MC_Herd), spec->code (feed transitions), code->spec (Trace_Herd)."""
import json
import os
import random
import re
import subprocess
import time
from concurrent.futures import ThreadPoolExecutor

from . import common as C

C07_CLAUSES = {"FeedsCurrentHerd", "Requirement", "ThreadsSupply", "WithinSupply", "NoOverfeeding",
               "GrassOnlyRuminants", "GrassFirst", "Greedy", "FedWithinHerd", "FedCount", "PriorityOrder",
               "EverySpeciesServed", "UsedIsSuppliedMinusLeft", "UsedWithinSupplied", "StarvingIsRemainder",
               "StarvingNonNeg", "InvSupplyNonNeg", "InvFedWithinHerd", "SupplyNonNeg"}
C06_CLAUSES = {"FlowsNonNeg", "OnlyDairyExports", "TransferConserved", "HoursWithinBudget", "SlaughterWithinPop",
               "NotBelowTarget", "Ledger", "EverySpeciesClosed", "InvHeadCountsNonNeg", "InvHoursNonNeg",
               "OncePerMonth", "AllBirthsFirst", "AllSlaughterFirst", "EverySpeciesSimulated"}

# (MLI and GEO: small meat herds next to large dairy herds - the hand-over dominates their ledger; both carry a recorded finding)
QUICK_CC = ["ARG", "USA", "IND", "CHN", "NZL", "DJI", "LSO", "EST", "SLV", "ECU", "JPN", "ZAF", "WOR", "MNG", "SAU", "MLI", "GEO", "SWT", "LUX"]
STRATS = ["baseline", "reduced", "feed_only_ruminants"]
SERIES = [("zero", "zero"), ("partial", "partial"), ("rand", "rand"), ("ample", "zero"), ("drop", "ramp"),
          ("ramp", "drop"), ("zero", "ample"), ("rand", "partial"), ("stop", "zero")]


def all_countries():
    import csv
    with open(os.path.join(C.REPO, "data/no_food_trade/computer_readable_combined.csv")) as fh:
        return [r["iso3"] for r in csv.DictReader(fh)] + ["WOR"]


def jobs_for(tier):
    sd = C.seed()
    rng = random.Random(sd)
    jobs = []
    if tier == "quick":
        # (VERIF_HERD_CC: ad-hoc exploration of other countries with the quick recipe; never set by the registered commands)
        ccs = os.environ["VERIF_HERD_CC"].split(",") if os.environ.get("VERIF_HERD_CC") else QUICK_CC
        months = 30
        for i, cc in enumerate(ccs):
            for j, st in enumerate(STRATS):
                # two series pairs per (country, strategy), rotating through all eight
                for k in range(2):
                    fk, gk = SERIES[(i + 3 * j + 4 * k + sd) % len(SERIES)]
                    jobs.append(dict(cc=cc, strategy=st, feed=fk, grass=gk, months=months, seed=rng.randrange(1 << 30)))
    else:
        ccs = all_countries()
        for i, cc in enumerate(ccs):
            for j, st in enumerate(STRATS):
                for k in range(3):
                    fk, gk = SERIES[(i + 3 * j + 3 * k + sd) % len(SERIES)]
                    jobs.append(dict(cc=cc, strategy=st, feed=fk, grass=gk,
                                     months=120 if (i + j + k) % 4 == 0 else 48, seed=rng.randrange(1 << 30)))
    for t, j in enumerate(jobs):
        j["tid"] = t + 1
    return jobs


def record(tier):
    """Record herd traces (cached per repository tree hash). Returns list of shard files and the job list."""
    h = C.tree_hash()
    import hashlib
    rec_src = open(os.path.join(os.path.dirname(__file__), "herd_rec.py"), "rb").read()
    jh = hashlib.sha256(json.dumps(jobs_for(tier), sort_keys=True).encode() + rec_src).hexdigest()[:12]
    d = C.cache_dir(h, "herd_%s_%d_%s" % (tier, C.seed(), jh))
    done = os.path.join(d, "DONE")
    with C.locked(os.path.join(d, "rec")):
        if not os.path.exists(done):
            C.prune_cache(h)
            scratch = C.scratch_repo()
            jobs = jobs_for(tier)
            n = min(C.NCPU, len(jobs))
            shards = [jobs[i::n] for i in range(n)]
            procs = []
            for i, sh in enumerate(shards):
                for k, j in enumerate(sh):
                    j["tid"] = k + 1  # tid = line number within its shard
                    j["shard"] = i
                jf = os.path.join(d, "jobs_%d.json" % i)
                json.dump(sh, open(jf, "w"))
                procs.append(subprocess.Popen([C.PY, "-m", "harness.herd_rec", jf, os.path.join(d, "tr_%d.ndjson" % i)],
                                              cwd=scratch, env=C.worker_env(), stdout=subprocess.PIPE,
                                              stderr=subprocess.PIPE, text=True))
            errs = []
            for p in procs:
                o, e = p.communicate()
                if p.returncode != 0:
                    errs.append(e[-2000:])
            if errs:
                raise RuntimeError("herd recorder failed: " + errs[0])
            open(done, "w").write("ok")
    shards = sorted(f for f in os.listdir(d) if f.startswith("tr_"))
    return [os.path.join(d, f) for f in shards]


def split_errors(shard):
    """Traces whose run raised are kept out of TLC (they have no events) and returned separately."""
    good, bad = [], []
    with open(shard) as fh:
        for line in fh:
            t = json.loads(line)
            (bad if "error" in t["hdr"] else good).append((t, line))
    return good, bad


def validate(shards, workdir):
    """One TLC (workers 1) per shard, in parallel. Returns (fails, n_traces, n_events, tlc results, errors)."""
    results = []

    def one(shard):
        good, bad = split_errors(shard)
        if not good:
            return shard, None, [], bad, 0
        f = os.path.join(workdir, os.path.basename(shard))
        with open(f, "w") as fh:
            for k, (t, line) in enumerate(good):
                fh.write(line)
        r = C.run_tlc("Trace_Herd", cfg="Trace_Herd.cfg", workers=1, env={"TRACE_FILE": f}, timeout=3000, heap="3g")
        fails = []
        m = re.search(r'"VERIF_FAILS",\s*(\d+),\s*(<<.*?>>)\s*>>\s*<<\s*"VERIF_DONE",\s*(\d+),\s*(\d+),\s*(\d+)', r.out.replace("\n", " "))
        nev = 0
        if m:
            for mm in re.finditer(r'<<(\d+), (\d+), "(\w+)">>', m.group(2)):
                fails.append((int(mm.group(1)), int(mm.group(2)), mm.group(3)))
            nfail = int(m.group(1))
            if int(m.group(3)) != int(m.group(4)) or int(m.group(4)) != len(good):
                r.error = "not every trace was consumed to its end (%s of %s)" % (m.group(3), m.group(4))
            nev = int(m.group(5))
            if nfail and not fails:
                r.error = "failures noted but not parsed"
        elif not r.error:
            r.error = "no VERIF report in TLC output: " + r.out[-800:]
        return shard, r, [(good[t - 1][0], l, c) for (t, l, c) in sorted(set(fails))], bad, nev

    with ThreadPoolExecutor(max_workers=C.NCPU) as ex:
        for res in ex.map(one, shards):
            results.append(res)
    return results


def describe(trace, l, clause):
    job = trace["hdr"]["job"]
    ev = trace["ev"][l - 1] if 0 < l <= len(trace["ev"]) else {"ev": "Finish"}
    month = sum(1 for e in trace["ev"][:l - 1] if e["ev"] == "EndMonth")
    key = "%s:%s" % (clause, ev.get("ev"))
    if clause == "FlowsNonNeg" and ev.get("ev") == "Births":
        key += ":%s:%s:month%d" % (job["cc"], ev.get("s"), month)    # (a property of the country's herd data: keyed by country, species and month)
    what = "%s %s feed=%s grass=%s month=%d event=%s species=%s" % (
        job["cc"], job["strategy"], job["feed"], job["grass"], month, ev.get("ev"), ev.get("s"))
    return key, what, dict(job=job, month=month, event_index=l, event=ev, clause=clause)


def run(pid, tier):
    out = C.Outcome(pid, tier)
    mine = C07_CLAUSES if pid == "C07" else C06_CLAUSES
    out.rule = ("MC_Herd exhaustive (exact rationals); " +
                ("every Feed transition and feeding month of MC_Herd replayed through the real feed_the_species / "
                 "feed_animals; " if pid == "C07" else "") +
                "traces of animal_populations.main() on real country rows x strategies x generated feed/grass series "
                "validated by Trace_Herd; distinct = distinct (country, strategy, feed kind, grass kind) traces with "
                "at least one event where the clause group's non-trivial branch is taken")
    # 1. exhaustive
    r = C.run_tlc("MC_Herd", cfg="MC_Herd.cfg", workers=C.NCPU, timeout=1800)
    out.add_tlc("MC_Herd", r)
    if r.violated:
        out.violation("spec:%s" % r.violated, "MC_Herd violates %s (the specification itself is inconsistent)" % r.violated,
                      r.out[-3000:])
    # 2. spec -> code (C07)
    scratch = C.scratch_repo()
    wd = C.workdir()
    if pid == "C07":
        r2 = C.run_tlc("MC_Herd", cfg="MC_HerdFeed.cfg", workers=1, timeout=1800)
        out.add_tlc("MC_HerdFeed", r2)
        cases = []
        for line in r2.out.splitlines():
            line = line.strip()
            if line.startswith('"{') and ("FEEDCASE" in line or "FEEDMONTH" in line):
                cases.append(json.loads(json.loads(line)))
        if not cases and not r2.error:
            out.machinery.append("MC_HerdFeed emitted no cases")
        cf = os.path.join(wd, "feedcases.ndjson")
        with open(cf, "w") as fh:
            for c in cases:
                fh.write(json.dumps(c) + "\n")
        rep = os.path.join(wd, "feedreplay.json")
        p = C.run_worker("harness.feed_replay", [cf, rep], scratch, timeout=1800)
        if p.returncode != 0:
            out.machinery.append("feed replay failed: " + p.stderr[-1500:])
        else:
            rj = json.load(open(rep))
            out.traces += rj["single"] + rj["months"]
            out.evaluations += rj["single"] + rj["months"]
            out.extra["feed_replay"] = dict(single=rj["single"], months=rj["months"], kinds=rj["kinds"],
                                            mismatches=rj["n_mismatch"])
            out.distinct_n += rj["single"]
            for m in rj["mismatches"]:
                c = m["case"]
                if m["kind"] == "Feed":
                    e = c["e"]
                    zero = e["need"][0] == 0
                    full = (not zero) and e["fed"] == e["pop"]
                    key = "replay:Feed:%s" % ("zero-need" if zero else "full" if full else "partial")
                else:
                    key = "replay:FeedMonth"
                out.violation(key, "real code disagrees with the Herd!Feed transition: got %s" % json.dumps(m["got"]), m)
            if rj["mismatches"]:
                out.sample(dict(mismatch=rj["mismatches"][0]))
            if cases:
                out.sample(dict(replayed_feed_transition=cases[len(cases) // 2]))
    # 3. code -> spec
    try:
        shards = record(tier)
    except Exception as ex:  # noqa
        out.machinery.append(str(ex)[-1500:])
        return out.finish()
    res = validate(shards, wd)
    ntr = 0
    for shard, r, fails, bad, nev in res:
        if r is not None:
            out.add_tlc("Trace_Herd:" + os.path.basename(shard), r)
        good, _ = split_errors(shard)
        ntr += len(good)
        out.evaluations += nev
        for t, line in bad:
            job = t["hdr"]["job"]
            out.violation("exception:%s" % t["hdr"]["error"][:60],
                          "animal_populations.main raised for %s %s: %s" % (job["cc"], job["strategy"], t["hdr"]["error"]),
                          t["hdr"])
        for (t, l, clause) in fails:
            if clause not in mine:
                continue
            key, what, rep = describe(t, l, clause)
            out.violation(key, what, rep)
        for t, line in good:
            j = t["hdr"]["job"]
            out.distinct.add((j["cc"], j["strategy"], j["feed"], j["grass"]))
        if good and not out.samples_has("trace"):
            t = good[0][0]
            out.sample(dict(trace=dict(job=t["hdr"]["job"], species=t["hdr"]["species"], first_events=t["ev"][:3],
                                       n_events=len(t["ev"]))))
    out.traces += ntr
    out.distinct_n += len(out.distinct)
    out.assumptions = [
        "TLC 1.8 evaluates the TLA+ modules correctly; harness/limbs.py encodes floats at 1e-12 resolution",
        "feed / grass series are generated by the harness (zero, ample, partial, ramp, drop, seeded random) on real "
        "country rows of FAOSTAT_head_and_slaughter.csv; meat kcal per head is an input chosen by the harness",
        "tolerance 1e-9 relative + 1e-6 absolute (head, billion kcal, hours)",
        "named deviation PriorityIgnoresRegionalFactor (see Herd.tla)",
    ]
    return out.finish()
