"""C01: Ledger.tla — exhaustive MC_Ledger + every solved round of every corpus run validated by Trace_Ledger."""
from . import common as C
from . import corpus
from . import tracecheck
from .limbs import num


C02_CLAUSES = {"OptimumAchieved", "IntakeCapsAsConfigured", "StockRegimeAsConfigured", "HumanShareCaps", "FeedShareCaps", "BioShareCaps", "NoStoragePolicy", "BioNonRising", "HumansPinned",
               "ScoreAchieved"}


def cap(c, who):
    k = c.get("caps") or {}
    return dict(sw=num(k.get("MAX_SEAWEED_AS_PERCENT_KCALS_" + who, 100.0)), scp=num(k.get("MAX_METHANE_SCP_AS_PERCENT_KCALS_" + who, 100.0)),
                cs=num(k.get("MAX_CELLULOSIC_SUGAR_AS_PERCENT_KCALS_" + who, 100.0)))


def lp_trace(run, lp):
    c = lp["consts"]
    need = c["need"]
    n = c["NMONTHS"]
    s = lp["series"]
    v = lp["vars"]
    add = c["add"]
    w = c["waste"]

    def q(x):
        return num(x, need)

    def g(pct):
        return num(1.0 / (1.0 - pct / 100.0))

    sw = c["seaweed"]
    rc = dict(kind="humans" if lp["kind"] == "H" else "animals",
              gSf=g(w["sf"]), wSf=num(w["sf"]), gCrop=g(w["crops"]), wCrop=num(w["crops"]), gMeat=g(w["meat"]), wMeat=num(w["meat"]),
              gScp=g(w["scp"]), wScp=num(w["scp"]), gCs=g(w["cs"]), wCs=num(w["cs"]), gSw=g(w["seaweed"]), wSw=num(w["seaweed"]),
              swKcal=q(sw["kcals"]), swInit=num(sw["initial"] if add["seaweed"] else 0.0),
              swInitArea=num(sw["initial_area"] if add["seaweed"] else 0.0), swMinDens=num(sw["min_density"]),
              swMaxDens=num(sw["max_density"]), swLoss=num(sw["harvest_loss"]),
              wRetail=num((run.get("inputs") or {}).get("waste_retail", w["sf"])),
              sfInitial=q(c["sf_initial"] if add["sf"] else 0.0), store=bool(c["store"]),
              popNeed=q(c["POP"] * c["KCALS_MONTHLY"] / 1e9), monthDays=num(c["KCALS_MONTHLY"] / c["KCALS_DAILY"]),
              capH=cap(c, "HUMANS"), capF=cap(c, "FEED"), capB=cap(c, "BIOFUEL"),
              capsCfg={"enabled": "enabled", "disabled_for_humans": "disabled"}.get(str(((run.get("job") or {}).get("options") or {}).get("intake_constraints")), "unknown"),
              storeCfg={"zero": "store", "baseline": "store", "no_stored_between_years": "nostore", "baseline_no_stored_between_years": "nostore"}.get(
                  str(((run.get("job") or {}).get("options") or {}).get("ratio_stocks_untouched")), "unknown"))
    ev = [dict(ev="Begin", c=rc)]
    feed_key, bio_key = ("feed", "biofuel") if lp["kind"] == "H" else ("max_feed", "max_biofuel")
    for m in range(n):
        sup = dict(crops=q(s["crops"][m] if add["crops"] else 0.0), meat=q(s["meat"][m] if add["meat"] else 0.0),
                   scp=q(s["scp"][m] if add["scp"] else 0.0), cs=q(s["cs"][m] if add["cs"] else 0.0),
                   built=num(s["built_area"][m] if add["seaweed"] else 0.0), growth=num(s["growth"][m]),
                   feed=q(s[feed_key][m]), bio=q(s[bio_key][m]), chargeF=q(s["feed"][m]), chargeB=q(s["biofuel"][m]), milk=q(s["milk"][m]), fish=q(s["fish"][m]), gh=q(s["greenhouse"][m]))
        a = dict(sf=dict(h=q(v["stored_food_to_humans"][m]), f=q(v["stored_food_feed"][m]), b=q(v["stored_food_biofuel"][m])),
                 crops=dict(h=q(v["crops_food_to_humans"][m]), f=q(v["crops_food_feed"][m]), b=q(v["crops_food_biofuel"][m])),
                 scp=dict(h=q(v["methane_scp_to_humans"][m]), f=q(v["methane_scp_feed"][m]), b=q(v["methane_scp_biofuel"][m])),
                 cs=dict(h=q(v["cellulosic_sugar_to_humans"][m]), f=q(v["cellulosic_sugar_feed"][m]), b=q(v["cellulosic_sugar_biofuel"][m])),
                 sw=dict(h=num(v["seaweed_to_humans"][m]), f=num(v["seaweed_feed"][m]), b=num(v["seaweed_biofuel"][m]),
                         wet=num(v["seaweed_wet_on_farm"][m]), area=num(v["used_area"][m])),
                 meat=q(v["meat_eaten"][m]))
        mc = lp.get("min_cons")
        pin = dict(sf=q(mc["stored_food"][m]), crops=q(mc["outdoor_crops"][m]), meat=q(mc["meat"][m]), scp=q(mc["methane_scp"][m]),
                   cs=q(mc["cellulosic_sugar"][m]), sw=q(mc["seaweed"][m])) if mc else dict(sf=q(0), crops=q(0), meat=q(0), scp=q(0), cs=q(0), sw=q(0))
        ev.append(dict(ev="Month", m=m, sup=sup, a=a, pin=pin))
    # humans: the optimum as a fraction of the requirement; animals: the weighted feed / biofuel total in units of the requirement
    ev.append(dict(ev="Finish", n=n, z=num(lp["z"] / 100.0 if lp["kind"] == "H" else lp["z"] / need)))
    return dict(hdr=dict(cc=run["job"]["cc"], preset=run["job"]["preset"], round=lp["round"], kind=lp["kind"],
                         store=c["store"], need=need), ev=ev)


def key_of(t, l, clause):
    h = t["hdr"]
    regime = "storage" if h["store"] else "first-year-only"
    return "%s:%s:%s" % (clause, "humans" if h["kind"] == "H" else "animals", regime)


def run(pid, tier):
    out = C.Outcome(pid, tier)
    out.rule = ("MC_Ledger exhaustive on small rationals; one trace per solved optimisation round of every corpus run "
                "(countries x presets, see harness/presets.py), one Month event per simulated month, validated by "
                "Trace_Ledger; distinct = distinct (country, preset, round) traces")
    r = C.run_tlc("MC_Ledger", cfg="MC_Ledger.cfg", workers=C.NCPU, timeout=1800)
    out.add_tlc("MC_Ledger", r)
    if r.violated:
        out.violation("spec:%s" % r.violated, "MC_Ledger violates %s" % r.violated, r.out[-3000:])
    traces = []
    nruns = 0
    for run_ in corpus.runs(tier):
        nruns += 1
        if run_.get("recorder_error"):
            out.machinery.append("recorder: " + run_["recorder_error"])
            continue
        for lp in run_.get("lps", []):
            traces.append(lp_trace(run_, lp))
    # the small synthetic programmes of C02's family are programmes the model builds and solves too: their allocations must
    # exist physically as well (both round kinds, both stock regimes)
    from . import optimum
    nsmall = 0
    try:
        sols = optimum.solve_all(optimum.gen_instances(tier, C.seed())) + optimum.solve_all(optimum.gen_animal_instances(tier, C.seed()))
    except Exception as ex:  # noqa
        out.machinery.append(str(ex)[-1200:])
        sols = []
    for r in sols:
        if r.get("ok"):
            t = lp_trace(dict(job=dict(cc="inst%d" % r["inst"]["id"], preset="small")), r["lp"])
            t["hdr"]["small"] = True
            traces.append(t)
            nsmall += 1
    out.extra["small_instances"] = nsmall
    fails = tracecheck.validate("Trace_Ledger", "Trace_Ledger.cfg", traces, out)
    for (t, l, clause) in fails:
        if clause in C02_CLAUSES:
            continue  # C02 clauses, reported by ./check C02
        h = t["hdr"]
        if h.get("small"):
            out.violation("small:" + key_of(t, l, clause), "small instance %s (%s round), event %d" % (h["cc"], "people-maximising" if h["kind"] == "H" else "feed-maximising", l),
                          dict(hdr=h, event_index=l, clause=clause))
            continue
        e = t["ev"][l - 1] if l <= len(t["ev"]) else {}
        out.violation(key_of(t, l, clause), "%s %s round %d month %s" % (h["cc"], h["preset"], h["round"], e.get("m", "-")),
                      dict(hdr=h, event_index=l, clause=clause, event=e))
    for t in traces:
        out.distinct.add((t["hdr"]["cc"], t["hdr"]["preset"], t["hdr"]["round"]))
    if traces:
        t = traces[len(traces) // 2]
        out.sample(dict(trace=dict(hdr=t["hdr"], begin=t["ev"][0], month_7=t["ev"][8], n_events=len(t["ev"]))))
    out.extra["runs"] = nruns
    out.assumptions = ["supplies are the round's own inputs (consts_for_optimizer / time_consts captured at Optimizer construction)",
                       "allocations are the LP variables' values after the last (smoothing) solve",
                       "LP tolerance 1e-5 relative + 1e-6 (units of the monthly national requirement)"]
    return out.finish()
