"""Spec -> code for C07: replays the Feed transitions and whole feeding months emitted by MC_Herd (exact
rationals) through the real AnimalSpecies.feed_the_species / AnimalPopulation.feed_animals.
Runs with cwd = scratch copy. Writes a JSON report: counts and mismatches.
"""
import json
import os
import sys
from fractions import Fraction

sys.path.insert(0, os.getcwd())

KLSU = ((29000 / 12) / 4.187) * 1000 / 1e9


def fr(x):
    return Fraction(x[0], x[1])


def close(a, b):
    a = float(a)
    b = float(b)
    return abs(a - b) <= 1e-9 * max(1.0, abs(a), abs(b))


def mk_animal(ap, typ, pop, lsu_units):
    """A real AnimalSpecies whose monthly net-energy requirement is pop * lsu_units energy units."""
    a = ap.AnimalSpecies(typ, typ)
    a.set_animal_attributes(population=float(pop), slaughter=0, animal_function="meat",
                            livestock_unit=float(lsu_units) / KLSU, digestion_type="x", animal_size="large",
                            approximate_feed_conversion=1)
    a.LSU_factor = 1
    return a


def main():
    from src.food_system import animal_populations as ap
    from src.food_system.food import Food

    Food.conversions.set_nutrition_requirements(2100, 47, 51, False, False, 1e7)
    cases = [json.loads(l) for l in open(sys.argv[1])]
    out = dict(single=0, months=0, mismatches=[], kinds={})
    # group single cases: key -> allowed fed values (the spec offers both neighbours at an exact half)
    singles = {}
    for c in cases:
        if c["k"] != "FEEDCASE":
            continue
        e = c["e"]
        key = (c["rum"], tuple(e["pop"]), tuple(e["need"]), tuple(e["grassIn"]), tuple(e["feedIn"]))
        d = singles.setdefault(key, dict(c=c, fed=set()))
        d["fed"].add(fr(e["fed"]))
    for key, d in singles.items():
        c = d["c"]
        e = c["e"]
        pop, need, g, f = fr(e["pop"]), fr(e["need"]), fr(e["grassIn"]), fr(e["feedIn"])
        a = mk_animal(ap, c["s"], pop, 1)
        a.NE_balance = Food(float(need), 0, 0)
        a.population_fed = -12345.0  # poison: the call must set it
        gin, fin = Food(float(g), 0, 0), Food(float(f), 0, 0)
        try:
            gout, fout = a.feed_the_species(gin, fin, c["rum"])
            got = dict(grassOut=float(gout.kcals), feedOut=float(fout.kcals), fed=float(a.population_fed))
        except BaseException as ex:  # noqa
            got = dict(error=repr(ex)[:200])
        kind = ("zero" if need == 0 else "full" if min(d["fed"]) == pop else "partial") + ("_rum" if c["rum"] else "")
        out["kinds"][kind] = out["kinds"].get(kind, 0) + 1
        out["single"] += 1
        ok = ("error" not in got and close(got["grassOut"], fr(e["grassOut"])) and close(got["feedOut"], fr(e["feedOut"]))
              and any(close(got["fed"], k) for k in d["fed"]))
        if not ok and len(out["mismatches"]) < 50:
            out["mismatches"].append(dict(kind="Feed", case=c, allowed_fed=[str(k) for k in d["fed"]], got=got))
        elif not ok:
            out["mismatches"].append(None)
    seen = set()
    for c in cases:
        if c["k"] != "FEEDMONTH":
            continue
        key = json.dumps([c["pop"], c["grass"], c["feed"]], sort_keys=True)
        # several spec behaviours (rounding choices) share a start; collect allowed outcomes per start
        seen.add(key)
    months = {}
    for c in cases:
        if c["k"] != "FEEDMONTH":
            continue
        key = json.dumps([c["pop"], c["grass"], c["feed"]], sort_keys=True)
        months.setdefault(key, []).append(c)
    for key, alts in months.items():
        c = alts[0]
        animals = [mk_animal(ap, s, fr(c["pop"][s]), fr(c["lsu"][s])) for s in c["order"]]
        rum = [a for a in animals if c["rum"][a.animal_type]]
        try:
            feed_left, grass_left = ap.AnimalPopulation.feed_animals(
                animals, rum, Food(float(fr(c["feed"])), 0, 0), Food(float(fr(c["grass"])), 0, 0))
            got = dict(grassLeft=float(grass_left.kcals), feedLeft=float(feed_left.kcals),
                       fed={a.animal_type: float(a.population_fed) for a in animals})
        except BaseException as ex:  # noqa
            got = dict(error=repr(ex)[:200])
        out["months"] += 1
        ok = "error" not in got and any(
            close(got["grassLeft"], fr(alt["grassLeft"])) and close(got["feedLeft"], fr(alt["feedLeft"]))
            and all(close(got["fed"][s], fr(alt["fed"][s])) for s in alt["order"]) for alt in alts)
        if not ok and len(out["mismatches"]) < 50:
            out["mismatches"].append(dict(kind="FeedMonth", case=c, got=got))
        elif not ok:
            out["mismatches"].append(None)
    out["n_mismatch"] = len(out["mismatches"])
    out["mismatches"] = [m for m in out["mismatches"] if m]
    json.dump(out, open(sys.argv[2], "w"))


if __name__ == "__main__":
    main()
