"""C10: Units.tla — laws on exponent vectors (all pairs / triples) + table replayed against the real conversions."""
import json
import os

from . import common as C


def run(pid, tier):
    out = C.Outcome(pid, tier)
    out.rule = ("Units.tla: RoundTrip / ViaEqualsDirect / FormPreserved / Anchors evaluated by TLC on monomial exponent "
                "vectors for all pairs and triples of the 15 + 18 + 18 unit names; the exported table is evaluated with "
                "exact fractions at seeded (POP, KD, FD, PD) settings and compared with get_conversion for every ordered "
                "pair and with in_units on scalars and series; distinct = (unit pair x setting) + (in_units case)")
    r = C.run_tlc("Units", cfg="Units.cfg", workers=1, timeout=600)
    out.tlc_runs.append(dict(name="Units", **r.summary()))
    if r.error and "No error has been found" not in r.out:
        if r.violated == "ASSUME" or "Assumption" in r.out:
            out.violation("spec:assumption", "a law of Units.tla fails on the table itself", r.out[-2000:])
        else:
            out.machinery.append(r.error)
    table = None
    for line in r.out.splitlines():
        if line.startswith('"{') and "table" in line:
            table = json.loads(json.loads(line))
    if table is None:
        out.machinery.append("Units.tla did not export its table")
        return out.finish()
    n_names = [len(table["table"][k]) * 3 for k in ("kcals", "fat", "protein")]
    laws = sum(n * n for n in n_names) + sum(n ** 3 for n in n_names) + sum(n * (n // 3) for n in n_names) + 11
    wd = C.workdir()
    tf = os.path.join(wd, "units_table.json")
    json.dump(table, open(tf, "w"))
    rep = os.path.join(wd, "units_rep.json")
    n = 12 if tier == "quick" else 400
    p = C.run_worker("harness.units_replay", [tf, rep, n, C.seed()], C.scratch_repo(), timeout=3000)
    if p.returncode != 0:
        out.machinery.append("units replay failed: " + p.stderr[-1500:])
        return out.finish()
    rj = json.load(open(rep))
    out.evaluations = laws + rj["pair_checks"] + rj["in_units_checks"] + rj["anchor_checks"]
    out.distinct_n = rj["pair_checks"] + rj["in_units_checks"]
    out.traces = rj["pair_checks"] + rj["in_units_checks"]
    out.extra.update(law_instances_checked_by_tlc=laws, settings=rj["settings"], pair_checks=rj["pair_checks"],
                     in_units_checks=rj["in_units_checks"], anchor_checks=rj["anchor_checks"], exhaustive=True)
    for m in rj["mismatches"]:
        out.violation(m["key"], "real conversion disagrees with Units.tla: %s" % m["key"], m)
    out.sample(dict(table_entry={"percent people fed (kcals)": table["table"]["kcals"]["percent people fed"]}))
    out.sample(dict(law="Conv(u,v) * Conv(v,w) = Conv(u,w) for all u,v,w among 15/18/18 names"))
    out.assumptions = ["a month has 30 days; the table in Units.tla is derived from the unit definitions, independently of the code",
                       "float comparison at 1e-11 relative"]
    return out.finish()
