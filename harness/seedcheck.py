"""Confirms a seeded change (written by a sub-agent that saw only the property text) and runs the checks against it.
  python -m harness.seedcheck C07 a [extra property ids to run]
Steps (all in scratch copies, never in /repo): demo exits 0 on the clean tree; patch applies; demo exits non-zero with the patch;
the fast unit tests pass with the patch; ./check <pid> --tier quick (VERIF_REPO = patched copy) is run. Writes /verif/seeded/<pid><v>/."""
import json
import os
import shutil
import subprocess
import sys
import tempfile
import time

from . import common as C


def sh(cmd, cwd, timeout=3600, env=None):
    p = subprocess.run(cmd, cwd=cwd, shell=True, capture_output=True, text=True, timeout=timeout, env=env)
    return p.returncode, (p.stdout + p.stderr)[-3000:]


def copy_repo(tag):
    d = tempfile.mkdtemp(prefix="verifseed.%s." % tag, dir=C.shm_root())
    subprocess.run(["rsync", "-a", "--exclude", ".git", "--exclude", "__pycache__", "/repo/", d + "/"], check=True)
    subprocess.run("git init -q && git add -A >/dev/null 2>&1 && git -c user.email=a@b -c user.name=x commit -qm base >/dev/null 2>&1", cwd=d, shell=True)
    return d


def notes_summary(path):
    """what the change is, what it breaks and what it needs to manifest, taken from the sub-agent's NOTES.md sections"""
    out = dict(change="", breaks="", needs_to_manifest="see NOTES.md")
    try:
        txt = open(path).read()
    except OSError:
        return out
    secs = []
    for line in txt.splitlines():
        if line.startswith("#") and not line.startswith("# " * 1 + " "):
            if line.lstrip("#").strip() and (line.startswith("## ") or not secs):
                secs.append([line.lstrip("#").strip(), []])
                continue
        if secs:
            secs[-1][1].append(line)
    def body(b):
        return " ".join(x.strip() for x in b if x.strip() and not x.startswith("```"))[:1500]
    if secs:
        out["title"] = secs[0][0]
    for head, b in secs:
        h = head.lower()
        if h.startswith("the change"):
            out["change"] = body(b)
        elif "clause" in h:
            out["breaks"] = body(b)
        elif "needs" in h and "manifest" in h:
            out["needs_to_manifest"] = body(b)
    return out


def recheck(pid, v, extra):
    """a later run of the checks against a change that was confirmed before (--recheck): the confirmation is kept, `checks` is replaced"""
    dst = os.path.join(C.VERIF, "seeded", "%s%s" % (pid, v))
    meta = json.load(open(os.path.join(dst, "meta.json")))
    pat = copy_repo(pid + v + "r")
    try:
        rca, oa = sh("git apply %s" % os.path.join(dst, "patch.diff"), pat)
        if rca != 0:
            print(json.dumps(dict(property=pid, variant=v, recheck="patch does not apply")))
            return
        checks = {}
        for p in [pid] + extra:
            env = dict(os.environ, VERIF_REPO=pat, VERIF_EVIDENCE_DIR=os.path.join(pat, "_verif_evidence"), VERIF_CACHE_DIR=os.path.join(pat, "_verif_cache"))
            t0 = time.time()
            q = subprocess.run([os.path.join(C.VERIF, "check"), p, "--tier", "quick"], env=env, capture_output=True, text=True)
            viol = [l for l in q.stdout.splitlines() if l.startswith("VIOLATION")]
            checks[p] = dict(rc=q.returncode, violations=[x.split("#", 1)[-1].strip()[:200] for x in viol[:4]], wall_s=round(time.time() - t0))
            if q.returncode not in (0, 1):
                checks[p]["stderr"] = q.stderr[-600:]
    finally:
        shutil.rmtree(pat, ignore_errors=True)
    meta = json.load(open(os.path.join(dst, "meta.json")))
    meta["checks"] = checks
    meta["caught_by"] = [p for p, c in checks.items() if c["rc"] == 1]
    meta["rechecked_at"] = time.strftime("%Y-%m-%dT%H:%M:%S")
    json.dump(meta, open(os.path.join(dst, "meta.json"), "w"), indent=1)
    print(json.dumps(dict(property=pid, variant=v, recheck=True, caught_by=meta["caught_by"])), checks)


def main():
    if "--recheck" in sys.argv:
        a = [x for x in sys.argv[1:] if x != "--recheck"]
        return recheck(a[0], a[1], a[2:])
    pid, v = sys.argv[1], sys.argv[2]
    extra = sys.argv[3:]
    src = "/tmp/seed_%s_out/%s" % (pid, v)
    dst = os.path.join(C.VERIF, "seeded", "%s%s" % (pid, v))
    os.makedirs(dst, exist_ok=True)
    for f in ("patch.diff", "demo.py", "NOTES.md"):
        if os.path.exists(os.path.join(src, f)):
            shutil.copy(os.path.join(src, f), os.path.join(dst, f))
    demo = os.path.join(dst, "demo.py")
    meta = dict(property=pid, variant=v, source="sub-agent given only the property text and a scratch worktree", at=time.strftime("%Y-%m-%dT%H:%M:%S"))
    clean = copy_repo(pid + v + "c")
    pat = copy_repo(pid + v + "p")
    try:
        rc0, o0 = sh("%s %s" % (C.PY, demo), clean, 1800)
        meta["demo_clean_rc"] = rc0
        rca, oa = sh("git apply %s" % os.path.join(dst, "patch.diff"), pat)
        meta["patch_applies"] = rca == 0
        rc1, o1 = sh("%s %s" % (C.PY, demo), pat, 1800)
        meta["demo_patched_rc"] = rc1
        meta["demo_patched_tail"] = o1[-400:]
        rct, ot = sh("%s -m pytest -q -p no:cacheprovider tests --ignore=tests/test_individual_scenarios.py --ignore=tests/test_argentina_parameters.py -x 2>&1 | tail -3" % C.PY, pat, 1800)
        meta["fast_tests_tail"] = ot.strip()[-200:]
        meta["fast_tests_pass"] = " passed" in ot and " failed" not in ot
        checks = {}
        for p in [pid] + extra:
            env = dict(os.environ, VERIF_REPO=pat, VERIF_EVIDENCE_DIR=os.path.join(pat, "_verif_evidence"), VERIF_CACHE_DIR=os.path.join(pat, "_verif_cache"))
            t0 = time.time()
            q = subprocess.run([os.path.join(C.VERIF, "check"), p, "--tier", "quick"], env=env, capture_output=True, text=True)
            viol = [l for l in q.stdout.splitlines() if l.startswith("VIOLATION")]
            checks[p] = dict(rc=q.returncode, violations=[x.split("#", 1)[-1].strip()[:200] for x in viol[:4]], wall_s=round(time.time() - t0))
            if q.returncode not in (0, 1):
                checks[p]["stderr"] = q.stderr[-600:]
        meta["checks"] = checks
        meta["confirmed"] = bool(rc0 == 0 and rca == 0 and rc1 != 0 and meta["fast_tests_pass"])
        meta["caught_by"] = [p for p, c in checks.items() if c["rc"] == 1]
    finally:
        shutil.rmtree(clean, ignore_errors=True)
        shutil.rmtree(pat, ignore_errors=True)
    notes = open(os.path.join(dst, "NOTES.md")).read() if os.path.exists(os.path.join(dst, "NOTES.md")) else ""
    meta.update(notes_summary(os.path.join(dst, "NOTES.md")))
    try:
        # (the result of a whole-suite run against this patch is recorded by another tool: keep it)
        old = json.load(open(os.path.join(dst, "meta.json")))
        meta.update({k: v for k, v in old.items() if k.startswith("suite_") or k.startswith("slow_")})
    except (OSError, ValueError):
        pass
    json.dump(meta, open(os.path.join(dst, "meta.json"), "w"), indent=1)
    print(json.dumps({k: meta[k] for k in ("property", "variant", "confirmed", "demo_clean_rc", "demo_patched_rc", "fast_tests_pass", "caught_by")}), meta["checks"])


if __name__ == "__main__":
    main()
