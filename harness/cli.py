"""./check <property> --tier quick|thorough [--replay path]"""
import argparse
import importlib
import json
import os
import sys
import traceback

from . import limbs

from . import common as C

DISPATCH = {
    "C01": ("harness.ledger", "run"),
    "C02": ("harness.optimum", "run"),
    "C03": ("harness.rounds", "run"),
    "C12": ("harness.mono", "run"),
    "C13": ("harness.options", "run"),
    "C14": ("harness.process", "run"),
    "C15": ("harness.process", "run"),
    "C16": ("harness.rounds", "run"),
    "C04": ("harness.report", "run"),
    "C05": ("harness.herdsupply", "run"),
    "C06": ("harness.herd", "run"),
    "C07": ("harness.herd", "run"),
    "C08": ("harness.supply", "run"),
    "C09": ("harness.supply", "run"),
    "C10": ("harness.units", "run"),
    "C11": ("harness.foodalg", "run"),
    "C17": ("harness.pipeline", "run"),
    "C18": ("harness.handoff", "run"),
}


def main():
    ap = argparse.ArgumentParser()
    ap.add_argument("pid")
    ap.add_argument("--tier", default=os.environ.get("VERIF_TIER", "quick"), choices=["quick", "thorough"])
    ap.add_argument("--replay")
    a = ap.parse_args()
    if a.replay:
        d = json.load(open(a.replay))
        print(json.dumps(d, indent=1)[:20000])
        print("\nTo re-run against the current tree: ./check %s --tier quick" % a.pid)
        return 0
    if a.pid not in DISPATCH:
        print("unknown property %s" % a.pid, file=sys.stderr)
        return 2
    mod, fn = DISPATCH[a.pid]
    try:
        rc = getattr(importlib.import_module(mod), fn)(a.pid, a.tier)
    except limbs.NonFinite:
        # every encoded number is an observation of the implementation (the generated inputs are finite by construction): a
        # quantity that is nan or inf where the specification expects a number violates whichever clause mentions it
        tb = traceback.format_exc()
        rdir = os.path.join(os.environ.get("VERIF_EVIDENCE_DIR") or os.path.join(os.path.dirname(os.path.dirname(os.path.abspath(__file__))), "evidence"), "replay")
        os.makedirs(rdir, exist_ok=True)
        path = os.path.join(rdir, "%s_nonfinite.json" % a.pid)
        json.dump(dict(property=a.pid, key="FiniteQuantities", what="an observed quantity is not a finite number", replay=dict(traceback=tb[-3000:])),
                  open(path, "w"), indent=1)
        print("VIOLATION property=%s replay=%s  # FiniteQuantities: an observed quantity is nan or inf" % (a.pid, path))
        return 1
    except Exception:
        traceback.print_exc()
        print("MACHINERY-FAILURE property=%s uncaught exception" % a.pid, file=sys.stderr)
        return 2
    print("check %s tier=%s exit=%d" % (a.pid, a.tier, rc))
    return rc


if __name__ == "__main__":
    sys.exit(main())
