"""Prints the coverage table of DESIGN.md section 0.2 from /verif/evidence/*.json (python -m harness.covtable)."""
import glob
import json
import os

from . import common as C


def main():
    print("| check | wall s | TLC runs | TLC distinct states (sum) | traces / cases bound to the implementation | distinct | known findings seen |")
    print("|---|---|---|---|---|---|---|")
    for f in sorted(glob.glob(os.path.join(C.VERIF, "evidence", "C*.json"))):
        e = json.load(open(f))
        c = e["coverage"]
        runs = c.get("tlc_runs", [])
        states = sum(r.get("states") or 0 for r in runs)
        print("| %s | %.0f | %d | %s | %s | %s | %d |" % (e["property_id"], e.get("wall_s", 0), len(runs), "{:,}".format(states),
                                                     "{:,}".format(c.get("traces_validated_against_impl", 0)),
                                                     "{:,}".format(c.get("distinct_nontrivial", 0)), len(c.get("known_findings_seen", []))))


if __name__ == "__main__":
    main()
