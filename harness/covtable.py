"""Prints the coverage table of DESIGN.md section 0.2 from /verif/evidence/*.json (python -m harness.covtable)."""
import glob
import json
import os

from . import common as C


def table():
    import io, contextlib
    buf = io.StringIO()
    with contextlib.redirect_stdout(buf):
        rows()
    return buf.getvalue()


def main():
    import sys
    if "--write" in sys.argv:
        p = os.path.join(C.VERIF, "DESIGN.md")
        s = open(p).read()
        a = s.index("### 0.2 Measured coverage of the quick tier")
        b = s.index("The thorough tier widens every dimension")
        seeds = sorted({json.load(open(f)).get("seed") for f in glob.glob(os.path.join(C.VERIF, "evidence", "C*.json"))})
        head = ("### 0.2 Measured coverage of the quick tier (seed %s, 16 cores; generated from /verif/evidence by `python -m harness.covtable --write`)\n\n"
                % "/".join(str(x) for x in seeds))
        open(p, "w").write(s[:a] + head + table() + "\n" + s[b:])
    else:
        rows()


def rows():
    print("| check | wall s | TLC runs | TLC distinct states (sum) | traces / cases bound to the implementation | distinct | known findings seen |")
    print("|---|---|---|---|---|---|---|")
    for f in sorted(glob.glob(os.path.join(C.VERIF, "evidence", "C*.json"))):
        e = json.load(open(f))
        c = e["coverage"]
        runs = c.get("tlc_runs", [])
        states = sum(r.get("states") or 0 for r in runs)
        print("| %s | %.0f | %d | %s | %s | %s | %d |" % (e["property_id"], e.get("wall_s", 0), len(runs), "{:,}".format(states),
                                                     "{:,}".format(c.get("traces_validated_against_impl", 0)),
                                                     "{:,}".format(c.get("distinct_nontrivial", 0)), len(c.get("known_findings_seen", []))))


if __name__ == "__main__":
    main()
