"""Runs the real Optimizer on small synthetic instances (and on perturbed captured inputs for C12). cwd = scratch copy.
argv: instances.json out.json"""
import contextlib
import io
import json
import os
import sys

import numpy as np

sys.path.insert(0, os.getcwd())


class Obj:
    pass


def mk(inst):
    """consts_for_optimizer / time_consts of a synthetic people-maximising round; the monthly requirement is `need` billion kcal."""
    from src.food_system.food import Food

    N = inst["n"]
    need = float(inst.get("need", 1.0))
    pop = need * 1e9 / (2100 * 30)
    Food.conversions.set_nutrition_requirements(2100, 47, 51, False, False, pop)
    z = np.zeros(N)

    def F(k):
        return Food(kcals=np.array(k, dtype=float), fat=np.zeros(N), protein=np.zeros(N), kcals_units="billion kcals each month",
                    fat_units="thousand tons each month", protein_units="thousand tons each month")

    waste = float(inst.get("waste", 0.0))
    oc = Obj()
    oc.production = F(inst["crops"])
    sfo = Obj()
    sfo.initial_available = Food(float(inst["sf"]), 0, 0)
    fish = Obj()
    fish.to_humans = F(inst.get("fish", z))
    meat = np.array(inst["meat"], dtype=float)
    c = dict(NMONTHS=N, POP=pop, KCALS_MONTHLY=2100 * 30, KCALS_DAILY=2100, BILLION_KCALS_NEEDED=Food.conversions.billion_kcals_needed,
             ADD_SEAWEED=False, ADD_OUTDOOR_GROWING=True, ADD_STORED_FOOD=True, ADD_MEAT=True, ADD_METHANE_SCP=True, ADD_CELLULOSIC_SUGAR=True,
             STORE_FOOD_BETWEEN_YEARS=bool(inst.get("store", True)), stored_food=sfo, STORED_FOOD_WASTE_RETAIL=waste, MEAT_WASTE_RETAIL=waste,
             CROP_WASTE_RETAIL=waste, SCP_RETAIL_WASTE=waste, CELL_SUGAR_RETAIL_WASTE=waste, SEAWEED_WASTE_RETAIL=waste, SEAWEED_KCALS=1.0,
             INITIAL_SEAWEED=0.0, HARVEST_LOSS=20.0, MINIMUM_DENSITY=1200.0, MAXIMUM_DENSITY=3600.0, INITIAL_BUILT_SEAWEED_AREA=0.0,
             meat_summed_consumption=float(meat.sum()), INITIAL_HARVEST_DURATION_IN_MONTHS=8, DELAY={"ROTATION_CHANGE_IN_MONTHS": 2},
             OG_FRACTION_FAT=0, OG_FRACTION_PROTEIN=0, OG_ROTATION_FRACTION_FAT=0, OG_ROTATION_FRACTION_PROTEIN=0,
             inputs=dict(INCLUDE_FAT=False, INCLUDE_PROTEIN=False, OG_USE_BETTER_ROTATION=False, COUNTRY_CODE="XXX",
                         MINIMUM_PERCENT_FED_BEFORE_NONHUMAN_CONSUMPTION_ALLOWED=100,
                         MAX_SEAWEED_AS_PERCENT_KCALS_HUMANS=100, MAX_SEAWEED_AS_PERCENT_KCALS_FEED=100, MAX_SEAWEED_AS_PERCENT_KCALS_BIOFUEL=100,
                         MAX_METHANE_SCP_AS_PERCENT_KCALS_HUMANS=100, MAX_METHANE_SCP_AS_PERCENT_KCALS_FEED=100, MAX_METHANE_SCP_AS_PERCENT_KCALS_BIOFUEL=100,
                         MAX_CELLULOSIC_SUGAR_AS_PERCENT_KCALS_HUMANS=100, MAX_CELLULOSIC_SUGAR_AS_PERCENT_KCALS_FEED=100,
                         MAX_CELLULOSIC_SUGAR_AS_PERCENT_KCALS_BIOFUEL=100))
    t = dict(outdoor_crops=oc, fish=fish, greenhouse_crops=F(z), milk_kcals=np.array(inst.get("milk", z), dtype=float), methane_scp=F(inst["scp"]),
             cellulosic_sugar=F(inst.get("cs", z)), each_month_meat_slaughtered=F(meat), max_consumed_culled_kcals_each_month=np.cumsum(meat),
             built_area=z.copy(), growth_rates_monthly=z.copy(), feed=F(inst.get("feed", z)), biofuel=F(inst.get("bio", z)))
    return c, t


def solve(inst):
    from harness.run_rec import lp_obs
    from src.optimizer.optimizer import Optimizer

    c, t = mk(inst)
    o = Optimizer(c, t)
    try:
        with contextlib.redirect_stdout(io.StringIO()):
            model, v, mc, z = o.optimize_to_humans(c, t)
        ob = lp_obs(o, "H", v, z)
        ob["round"] = 1
        return dict(ok=True, z=float(z), lp=ob)
    except BaseException as ex:  # noqa
        return dict(ok=False, exc=repr(ex)[:200])


def solve_animals(inst):
    """the feed-maximising round on a small instance: pinned human consumption, ceilings, non-rising feed / biofuel"""
    from harness.run_rec import lp_obs
    from src.food_system.food import Food
    from src.optimizer.optimizer import Optimizer

    c, t = mk(inst)
    N = inst["n"]
    need = float(inst["need"])

    def F(k):
        return Food(kcals=np.array(k, dtype=float), fat=np.zeros(N), protein=np.zeros(N), kcals_units="billion kcals each month",
                    fat_units="thousand tons each month", protein_units="thousand tons each month")

    def pin(k):  # billion kcals each month -> kcals per person per day each month (the unit the hand-off uses)
        return Food(kcals=np.array(k, dtype=float) / need * 2100.0, fat=np.zeros(N), protein=np.zeros(N),
                    kcals_units="kcals per person per day each month", fat_units="effective kcals per person per day each month",
                    protein_units="effective kcals per person per day each month")

    t["max_feed_that_could_be_used"] = F(inst["maxF"])
    t["max_biofuel_that_could_be_used"] = F(inst["maxB"])
    z = [0.0] * N
    min_cons = dict(outdoor_crops=pin(inst["hCrop"]), stored_food=pin(inst["hSf"]), meat=pin(inst.get("hMeat", z)), methane_scp=pin(z),
                    cellulosic_sugar=pin(z), seaweed=pin(z))
    o = Optimizer(c, t)
    try:
        with contextlib.redirect_stdout(io.StringIO()):
            model, v, mc, zz = o.optimize_feed_to_animals(c, t, min_cons)
        ob = lp_obs(o, "A", v, zz, min_cons)
        ob["round"] = 2
        return dict(ok=True, z=float(zz), lp=ob)
    except BaseException as ex:  # noqa
        return dict(ok=False, exc=repr(ex)[:200])


def main():
    insts = json.load(open(sys.argv[1]))
    out = []
    for inst in insts:
        r = solve_animals(inst) if inst.get("mode") == "animals" else solve(inst)
        r["inst"] = inst
        out.append(r)
    json.dump(out, open(sys.argv[2], "w"))


if __name__ == "__main__":
    main()
