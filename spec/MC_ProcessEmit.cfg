SPECIFICATION PSpec
CONSTANTS
  RunTypes = {"r_arg_base", "r_nzl_base", "r_dji_res", "r_wor", "r_bad", "r_alb_kf", "r_arg_kf", "r_arg_herd", "r_arg_own48", "r_dji_capoff"}
  Failing = {"r_bad"}
  Patched = {"r_alb_kf"}
  Overriding = {"r_arg_herd"}
  LimitEditors = {"r_dji_capoff"}
  YamlAble = {"r_arg_base", "r_arg_own48"}
  OwnHorizon = {"r_arg_own48"}
  CountryOf <- CountryTab
  OptOf <- OptTab
  TablePos <- PosTab
  MaxLen = 2
  Broken = "none"
  Emit = TRUE
  Countries <- C4
  Pop <- PopTab
  RatioGrid <- Grid
  RatioAssignments <- FewAssignments
CHECK_DEADLOCK FALSE
INVARIANT HistoryIndependent
INVARIANT ResultDependsOnlyOnRun
INVARIANT SurvivorsUntouched
