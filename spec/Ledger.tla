------------------------------- MODULE Ledger -------------------------------
(***************************************************************************)
(* The physical stock-and-flow ledger behind one optimisation round        *)
(* (src/optimizer/optimizer.py builds an LP; this module says what a       *)
(* month-by-month allocation must satisfy for the food it uses to exist).  *)
(*                                                                         *)
(* One action per month: Month(e) takes the month's supplies and the       *)
(* allocation (to people `h`, to feed `f`, to biofuel `b` per food; people *)
(* draw h * g from the stock, g = 1 / (1 - retail waste)) and advances the *)
(* stocks.  Begin fixes the round's constants, Finish states the           *)
(* end-of-horizon obligations.  Clauses (C01):                             *)
(*   NonNegative, SfNoOverdraw, CropNoOverdraw, MeatNoOverdraw,            *)
(*   ScpWithinOutput, CsWithinOutput, SeaweedStart / SeaweedLedger /       *)
(*   SeaweedBounds, FeedEqualsCharge / BioEqualsCharge (human rounds),     *)
(*   FeedWithinCeiling / BioWithinCeiling / FeedNonRising (animal round),  *)
(*   FullyUsedStored / FullyUsedCrops (human rounds, at Finish).           *)
(* Admissibility clauses of the allocation problem itself (C02: "subject   *)
(* to the documented intake caps", and the stock regime's policy):         *)
(*   HumanShareCaps  seaweed / single-cell protein / cellulosic sugar eaten *)
(*                   by people each stay within their share of the          *)
(*                   requirement of the initial population and of what      *)
(*                   people eat that month                                  *)
(*   FeedShareCaps / BioShareCaps  their share of the round's feed /        *)
(*                   biofuel charge                                         *)
(*   NoStoragePolicy  in the regimes without storage between years: meat is  *)
(*                   eaten in the month of slaughter and stored food only   *)
(*                   in months 0..12 (harvested crops are carried over in   *)
(*                   every regime)                                          *)
(* Written over Arith.tla: exhaustive on small rationals (MC_Ledger) and   *)
(* trace validation in limb arithmetic (Trace_Ledger).  Quantities are in  *)
(* units of the population's monthly calorie requirement; seaweed biomass  *)
(* and area in the model's own units.  LP tolerance: 1e-5 of the larger    *)
(* operand + 1e-6.                                                         *)
(***************************************************************************)
EXTENDS Arith

LpAbs == NOfScaled(100, 2)      \* 1e-6
LpRel == NOfScaled(1000, 2)     \* 1e-5
LEq(x, y) == EqT(x, y, LpAbs, LpRel)
LLe(x, y) == LeT(x, y, LpAbs, LpRel)
LNonNeg(x) == LLe(Zero, x)
\* cumulative balances add up one solver residual per month (measured: up to 3e-5 after 120 months), so relations
\* between running totals get 5e-4 + 1e-7 of the cumulative supply `scale`
CumAbs == NOfScaled(5, 1)       \* 5e-4
CumRel == NOfScaled(10, 2)      \* 1e-7
CLe(x, y, scale) == IF Exact THEN RLe(x, y) ELSE NLeq(x, NAdd(y, NAdd(CumAbs, NMul(CumRel, scale))))

VARIABLES
  rc,          \* round constants: [kind, gSf, gCrop, gMeat, gScp, gCs, gSw, swKcal, swInit, swInitArea, swMinDens,
               \*                   swMaxDens, swLoss, sfInitial]
  mon,         \* month about to be allocated (0-based); -1 before Begin
  sfStock,     \* stored food left
  cropStore,   \* harvested crops not yet used
  meatSup, meatUse,   \* cumulative slaughter / cumulative meat drawn
  cropSup,     \* cumulative harvest
  wetPrev, areaPrev,  \* seaweed biomass / used area at the end of the previous month
  feedPrev,    \* previous month's feed total
  bioPrev,     \* previous month's biofuel total
  score,       \* feed-maximising round: 2 * feed + biofuel so far (three times the round's objective)
  fedMin,      \* worst month so far of what people eat (all foods, in units of the requirement)
  done

lvars == <<rc, mon, sfStock, cropStore, cropSup, meatSup, meatUse, wetPrev, areaPrev, feedPrev, bioPrev, score, fedMin, done>>

Draw(g, x) == Add(Add(Mul(g, x.h), x.f), x.b)
FeedTotal(a) == Add(Add(Add(a.sf.f, a.crops.f), Add(a.scp.f, a.cs.f)), Mul(rc.swKcal, a.sw.f))
BioTotal(a) == Add(Add(Add(a.sf.b, a.crops.b), Add(a.scp.b, a.cs.b)), Mul(rc.swKcal, a.sw.b))
AllNonNeg3(x) == LNonNeg(x.h) /\ LNonNeg(x.f) /\ LNonNeg(x.b)

Pct(x) == Mul(x, Dec(100, 1))     \* percent -> fraction
\* the three resilient foods in energy units: [sw, scp, cs] of direction d \in {"h", "f", "b"}
Resilient(a, d) == [sw |-> Mul(rc.swKcal, a.sw[d]), scp |-> a.scp[d], cs |-> a.cs[d]]
Pinned(x, p) == EqT(x, p, LpAbs, NOfScaled(11000, 2))      \* 1.1e-4 relative
ShareOK(x, cap, base) == \A k \in {"sw", "scp", "cs"} : LLe(x[k], Mul(Pct(cap[k]), base))
\* g is the gross-up factor for retail waste of w percent:  g * (1 - w/100) = 1
IsGross(g, w) == EqT(Mul(g, Sub(One, Pct(w))), One, LpAbs, TolRel)

LInit == /\ rc = [kind |-> "none"] /\ mon = -1 /\ sfStock = Zero /\ cropStore = Zero /\ cropSup = Zero /\ meatSup = Zero
         /\ meatUse = Zero /\ wetPrev = Zero /\ areaPrev = Zero /\ feedPrev = Zero /\ bioPrev = Zero /\ score = Zero
         /\ fedMin = Zero /\ done = FALSE

(* c: the round's constants; wastes, harvest loss and growth are in percent *)
Begin(c) ==
  /\ mon = -1
  \* one retail-waste level per scenario: every food eaten by people is grossed up with it
  /\ Ck("RetailWasteAsConfigured", \A w \in {c.wSf, c.wCrop, c.wMeat, c.wScp, c.wCs, c.wSw} : Eq(w, c.wRetail))
  \* the unit everything is measured in: the monthly requirement of the run's population (30 days at the daily requirement)
  /\ Ck("RequirementIsPopulationNeed", Eq(c.popNeed, One) /\ Eq(c.monthDays, I(30)))
  \* the intake caps in force are the documented ones of the scenario's intake-cap mode (people: 10 / 50 / 40 % of the diet from
  \* seaweed / single-cell protein / cellulosic sugar, or 100 % each when the caps are disabled for people; feed 10 / 43 / 10;
  \* biofuel 10 / 100 / 100)
  \* the stock regime in force is the configured one: food is carried between years unless the run's regime says "no stored between years"
  /\ Ck("StockRegimeAsConfigured", c.storeCfg = "unknown" \/ (c.store <=> c.storeCfg = "store"))
  /\ Ck("IntakeCapsAsConfigured", c.capsCfg = "unknown" \/
         LET h == IF c.capsCfg = "enabled" THEN [sw |-> I(10), scp |-> I(50), cs |-> I(40)] ELSE [sw |-> I(100), scp |-> I(100), cs |-> I(100)]
         IN /\ \A k \in {"sw", "scp", "cs"} : Eq(c.capH[k], h[k])
            /\ Eq(c.capF.sw, I(10)) /\ Eq(c.capF.scp, I(43)) /\ Eq(c.capF.cs, I(10))
            /\ Eq(c.capB.sw, I(10)) /\ Eq(c.capB.scp, I(100)) /\ Eq(c.capB.cs, I(100)))
  /\ Ck("WasteFactors", /\ IsGross(c.gSf, c.wSf) /\ IsGross(c.gCrop, c.wCrop) /\ IsGross(c.gMeat, c.wMeat)
                        /\ IsGross(c.gScp, c.wScp) /\ IsGross(c.gCs, c.wCs) /\ IsGross(c.gSw, c.wSw))
  /\ rc' = c
  /\ mon' = 0
  /\ sfStock' = c.sfInitial
  /\ cropStore' = Zero /\ cropSup' = Zero /\ meatSup' = Zero /\ meatUse' = Zero
  /\ wetPrev' = c.swInit /\ areaPrev' = c.swInitArea
  /\ feedPrev' = Zero /\ bioPrev' = Zero /\ score' = Zero /\ fedMin' = Zero
  /\ done' = FALSE

(* e = [m, sup |-> [crops, meat, scp, cs, built, growth, feed, bio], a |-> allocation] *)
Month(e) ==
  LET a == e.a  s == e.sup
      sfNext == Sub(sfStock, Draw(rc.gSf, a.sf))
      cropNext == Sub(Add(cropStore, s.crops), Draw(rc.gCrop, a.crops))
      supNext == Add(meatSup, s.meat)
      useNext == Add(meatUse, Mul(rc.gMeat, a.meat))
      feed == FeedTotal(a)
      bio == BioTotal(a)
      \* what people eat this month: the allocation to humans plus the foods that bypass the optimiser (milk, fish, greenhouse crops)
      fed == Add(Add(Add(Add(a.sf.h, a.crops.h), Add(a.meat, a.scp.h)), Add(a.cs.h, Mul(rc.swKcal, a.sw.h))), Add(Add(s.milk, s.fish), s.gh))
  IN
  /\ mon >= 0 /\ ~done
  /\ Ck("MonthsInOrder", e.m = mon)
  /\ Ck("NonNegative", /\ AllNonNeg3(a.sf) /\ AllNonNeg3(a.crops) /\ AllNonNeg3(a.scp) /\ AllNonNeg3(a.cs)
                       /\ AllNonNeg3(a.sw) /\ LNonNeg(a.meat) /\ LNonNeg(a.sw.wet) /\ LNonNeg(a.sw.area))
  /\ Ck("SfNoOverdraw", CLe(Zero, sfNext, rc.sfInitial))
  /\ Ck("CropNoOverdraw", CLe(Zero, cropNext, Add(cropSup, s.crops)))
  /\ Ck("MeatNoOverdraw", CLe(useNext, supNext, supNext))
  /\ Ck("ScpWithinOutput", LLe(Draw(rc.gScp, a.scp), s.scp))
  /\ Ck("CsWithinOutput", LLe(Draw(rc.gCs, a.cs), s.cs))
  /\ IF mon = 0
     THEN Ck("SeaweedStart", /\ LEq(a.sw.wet, rc.swInit) /\ LEq(a.sw.area, rc.swInitArea)
                             /\ LEq(a.sw.h, Zero) /\ LEq(a.sw.f, Zero) /\ LEq(a.sw.b, Zero))
     ELSE Ck("SeaweedLedger",
             \* biomass left + harvest + loss on newly used area = last month's biomass grown for a month (+ the same term for area given
             \* up); both sides are sums of non-negative terms so that the LP tolerance is relative to the flows, not to their difference
             LET d == Sub(a.sw.area, areaPrev)
                 k == Mul(rc.swMinDens, Pct(rc.swLoss))
             IN LEq(Add(Add(a.sw.wet, Draw(rc.gSw, a.sw)), Mul(MaxZ(d), k)),
                    Add(Mul(wetPrev, Add(One, Pct(s.growth))), Mul(MaxZ(Neg(d)), k))))
  /\ Ck("SeaweedBounds", /\ LLe(rc.swInit, a.sw.wet) /\ LLe(a.sw.wet, Mul(rc.swMaxDens, s.built))
                         /\ LLe(rc.swInitArea, a.sw.area) /\ LLe(a.sw.area, s.built))
  /\ IF rc.kind = "humans"
     THEN /\ Ck("FeedEqualsCharge", LEq(feed, s.feed))
          /\ Ck("BioEqualsCharge", LEq(bio, s.bio))
     ELSE /\ Ck("FeedWithinCeiling", LLe(feed, s.feed))
          /\ Ck("BioWithinCeiling", LLe(bio, s.bio))
          /\ Ck("FeedNonRising", mon = 0 \/ LLe(feed, feedPrev))
          /\ Ck("BioNonRising", mon = 0 \/ LLe(bio, bioPrev))
          \* people's consumption is pinned to the hand-off of the no-feed round (within 1e-4 of each food's amount)
          /\ Ck("HumansPinned", /\ Pinned(a.sf.h, e.pin.sf) /\ Pinned(a.crops.h, e.pin.crops) /\ Pinned(a.meat, e.pin.meat)
                                /\ Pinned(a.scp.h, e.pin.scp) /\ Pinned(a.cs.h, e.pin.cs) /\ Pinned(Mul(rc.swKcal, a.sw.h), e.pin.sw))
  /\ Ck("HumanShareCaps", rc.kind # "humans" \/ (ShareOK(Resilient(a, "h"), rc.capH, rc.popNeed) /\ ShareOK(Resilient(a, "h"), rc.capH, fed)))
  /\ Ck("FeedShareCaps", ShareOK(Resilient(a, "f"), rc.capF, s.chargeF))
  /\ Ck("BioShareCaps", ShareOK(Resilient(a, "b"), rc.capB, s.chargeB))
  /\ Ck("NoStoragePolicy", rc.store \/ (/\ LLe(Mul(rc.gMeat, a.meat), s.meat)
                                         /\ (mon > 12 => LEq(Draw(rc.gSf, a.sf), Zero))))
  /\ mon' = mon + 1
  /\ sfStock' = sfNext /\ cropStore' = cropNext /\ cropSup' = Add(cropSup, s.crops) /\ meatSup' = supNext /\ meatUse' = useNext
  /\ wetPrev' = a.sw.wet /\ areaPrev' = a.sw.area
  /\ feedPrev' = feed /\ bioPrev' = bio
  /\ score' = Add(score, Add(Add(feed, feed), bio))
  /\ fedMin' = IF mon = 0 THEN fed ELSE Min(fedMin, fed)
  /\ UNCHANGED <<rc, done>>

(* n: horizon; z: the optimum the round reported (first solve), in units of the requirement. C02: the reported optimum is
   achieved by this (feasible) allocation - the tie-breaking solves keep every month within 0.01 % of it *)
Finish(n, z) ==
  /\ mon >= 0 /\ ~done
  /\ Ck("AllMonthsAllocated", mon = n)
  /\ (rc.kind = "humans") => Ck("OptimumAchieved", /\ LLe(Mul(z, Dec(9999, 1)), fedMin)
                                                    /\ LLe(fedMin, Mul(z, Add(One, Dec(1, 1)))))
  \* the feed-maximising round reports the weighted total its allocation delivers (the tie-breaking solves keep 0.9999 of it)
  /\ (rc.kind = "animals") => Ck("ScoreAchieved", /\ LLe(Mul(Mul(z, I(3)), Dec(9998, 1)), score)
                                                   /\ LLe(score, Mul(Mul(z, I(3)), Add(One, Dec(2, 1)))))
  /\ (rc.kind = "humans") => /\ Ck("FullyUsedStored", CLe(sfStock, Zero, rc.sfInitial))
                            /\ Ck("FullyUsedCrops", CLe(cropStore, Zero, cropSup))
  /\ done' = TRUE
  /\ mon' = -1
  /\ UNCHANGED <<rc, sfStock, cropStore, cropSup, meatSup, meatUse, wetPrev, areaPrev, feedPrev, bioPrev, score, fedMin>>

\* state invariants: nothing that exists is ever negative
InvStocksNonNeg == mon >= 0 => (CLe(Zero, sfStock, rc.sfInitial) /\ CLe(Zero, cropStore, cropSup) /\ CLe(meatUse, meatSup, meatSup)
                                /\ LNonNeg(wetPrev))
=============================================================================
