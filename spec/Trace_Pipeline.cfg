SPECIFICATION Spec
CONSTANTS
  Exact = FALSE
  Universe = {}
CHECK_DEADLOCK FALSE
POSTCONDITION Report
