SPECIFICATION Spec
CONSTANT Exact = TRUE
CHECK_DEADLOCK FALSE
INVARIANT PhaseOK
INVARIANT DoneMeansPolicy
PROPERTY EventuallyEnds
