------------------------------ MODULE Process ------------------------------
(***************************************************************************)
(* One operating-system process running several (country, scenario) runs   *)
(* one after another (C14), and the multi-country aggregate (C15).         *)
(*                                                                         *)
(* C14.  Three things outlive a run inside a process:                      *)
(*   globals  the class-level unit-conversion settings (population,        *)
(*            requirements, fat / protein flags) every Food quantity reads *)
(*   optobj   the caller's option dictionary: one by-country call hands    *)
(*            the same object to every country of its loop (a run `joined` *)
(*            to its predecessor runs in the same call, later in the       *)
(*            country table)                                               *)
(*   tables   the input tables of the herd model, keyed by country, and    *)
(*            the scenario loader's table of intake limits ("limits")      *)
(*   horizon  the settings-level default horizon of one yaml front-end     *)
(*            call, which every simulation of the call receives (a         *)
(*            simulation's own NMONTHS key is overridden by design)        *)
(* A run resolves its options (Resolve: a "known to fail" combination is   *)
(* corrected on a private copy), establishes the settings from its own     *)
(* inputs (SetGlobals), loads the tables (LoadTables: numeric overrides    *)
(* are written into the run's private copy) and computes (Compute).  Its   *)
(* result is a function of its inputs and of what it read on the way; a    *)
(* failing run stops after SetGlobals.  HistoryIndependent: in every       *)
(* history, every run's result equals the result of the same run alone in  *)
(* a fresh process.  The model makes explicit *why* this holds, so that    *)
(* TLC refutes it for each way of breaking it (constant Broken: a read     *)
(* before the set, a correction applied to the caller's object, an         *)
(* override written into a shared table, a simulation's own horizon        *)
(* replacing the settings' default), and enumerates the histories          *)
(* that are executed for real: in one process, each result compared bit    *)
(* for bit with the same run alone.                                        *)
(*                                                                         *)
(* C15.  Select / Accumulate: see the second half of the module.           *)
(***************************************************************************)
EXTENDS Integers, Sequences, FiniteSets, TLC, Json

CONSTANTS RunTypes,        \* distinguishable runs (different population, nutrition profile, horizon, ...), one may fail
          Failing,         \* the run types that raise after establishing their settings
          Patched,         \* the run types whose (country, options) is a "known to fail" combination that gets corrected
          Overriding,      \* the run types whose options carry numeric overrides of the herd tables
          LimitEditors,    \* the run types whose options replace entries of the loader's intake-limit table (for that run only)
          CountryOf,       \* run type -> country
          OptOf,           \* run type -> identity of its option dictionary (equal = may share one by-country call)
          TablePos,        \* country -> position in the country table (the loop order of a by-country call)
          YamlAble,        \* the run types that are also run through the yaml front end
          OwnHorizon,      \* the run types whose options carry their own NMONTHS key
          MaxLen, Broken, Emit

ASSUME Broken \in {"none", "ReadsBeforeSet", "CorrectsInPlace", "OverridesShared", "RebindsHorizon", "EditsSharedLimits"}
\* how a run is called: directly (its own by-country call), as a further country of the previous by-country call, as the first
\* simulation of a yaml front-end call, or as a further simulation of the previous yaml call
Forms == {"direct", "country", "yamlfirst", "yamlnext"}
IsYaml(f) == f \in {"yamlfirst", "yamlnext"}

VARIABLES globals,   \* the run type whose settings are in force ("fresh" in a new process)
          optobj,    \* state of the option object of the current call: "asgiven" | "corrected"
          tables,    \* country -> "asread" | <<"overridden", run type>>
          horizon,   \* "settings" | the run type whose own horizon replaced the settings' default (never, when correct)
          hist,      \* run types executed so far
          joined,    \* joined[i]: the form of run i's call
          results,   \* results[i] = <<run type, settings read, options read, table read, horizon read>> or <<run type, "failed">>
          pc         \* <<"idle">> | <<"resolve", r>> | <<"set", r, o, h>> | <<"load", r, o, h, g>> | <<"compute", r, o, h, g, t>> | <<"fail", r>>
pvars == <<globals, optobj, tables, horizon, hist, joined, results, pc>>

OwnOptions(r) == IF r \in Patched THEN "corrected" ELSE "asgiven"
OwnTable(r) == <<IF r \in Overriding THEN <<"overridden", r>> ELSE <<"asread">>,
                 IF r \in LimitEditors THEN <<"edited", r>> ELSE <<"asread">>>>
\* a direct call uses the run's own horizon, a yaml call the settings' (whatever the simulation says)
OwnHorizonRead(f) == IF IsYaml(f) THEN "settings" ELSE "own"
Solo(r, f) == IF r \in Failing THEN <<r, "failed">>
              ELSE <<r, IF Broken = "ReadsBeforeSet" THEN "fresh" ELSE r, OwnOptions(r), OwnTable(r), OwnHorizonRead(f)>>

PInit == /\ globals = "fresh" /\ optobj = "asgiven" /\ horizon = "settings"
         /\ tables = [c \in {CountryOf[r] : r \in RunTypes} \cup {"limits"} |-> <<"asread">>]
         /\ hist = <<>> /\ joined = <<>> /\ results = <<>> /\ pc = <<"idle">>

CanJoin(r, f) ==
  CASE f = "direct" -> TRUE
    [] f = "yamlfirst" -> r \in YamlAble
    [] f = "country" -> /\ Len(hist) > 0 /\ joined[Len(hist)] \in {"direct", "country"}
                        /\ LET q == hist[Len(hist)] IN
                             /\ q \notin Failing /\ OptOf[q] = OptOf[r] /\ TablePos[CountryOf[q]] < TablePos[CountryOf[r]]
    [] f = "yamlnext" -> /\ Len(hist) > 0 /\ IsYaml(joined[Len(hist)]) /\ r \in YamlAble
                         /\ LET q == hist[Len(hist)] IN q \notin Failing /\ CountryOf[q] = CountryOf[r]   \* one country list per call

Begin(r, f) == /\ pc[1] = "idle" /\ Len(hist) < MaxLen
               /\ CanJoin(r, f)
               /\ pc' = <<"resolve", r>> /\ hist' = Append(hist, r) /\ joined' = Append(joined, f)
               /\ optobj' = IF f = "country" THEN optobj ELSE "asgiven"      \* a new call / simulation brings its own dictionary
               /\ horizon' = IF f = "yamlnext" THEN horizon ELSE "settings"  \* a new yaml call reads the settings afresh
               /\ UNCHANGED <<globals, tables, results>>

\* the options the run works with: a patched run works on a corrected private copy
Resolve(r) == /\ pc[1] = "resolve" /\ pc[2] = r
              /\ LET f == joined[Len(hist)]
                      rebinds == Broken = "RebindsHorizon" /\ IsYaml(f) /\ r \in OwnHorizon
                      hread == IF ~IsYaml(f) THEN "own" ELSE IF rebinds THEN r ELSE horizon
                 IN /\ pc' = <<"set", r, IF r \in Patched THEN "corrected" ELSE optobj, hread>>
                    /\ horizon' = IF rebinds THEN r ELSE horizon
              /\ optobj' = IF Broken = "CorrectsInPlace" /\ r \in Patched THEN "corrected" ELSE optobj
              /\ UNCHANGED <<globals, tables, hist, joined, results>>

\* with ReadsBeforeSet a run reads the settings left behind by the previous run before installing its own
SetGlobals(r) == /\ pc[1] = "set" /\ pc[2] = r
                 /\ globals' = r
                 /\ pc' = IF r \in Failing THEN <<"fail", r>>
                          ELSE <<"load", r, pc[3], pc[4], IF Broken = "ReadsBeforeSet" THEN globals ELSE r>>
                 /\ UNCHANGED <<optobj, tables, horizon, hist, joined, results>>

LoadTables(r) == /\ pc[1] = "load" /\ pc[2] = r
                 /\ LET c == CountryOf[r] IN
                      /\ pc' = <<"compute", r, pc[3], pc[4], pc[5],
                                 <<IF r \in Overriding THEN <<"overridden", r>> ELSE tables[c],
                                   IF r \in LimitEditors THEN <<"edited", r>> ELSE tables["limits"]>>>>
                      /\ tables' = IF Broken = "OverridesShared" /\ r \in Overriding THEN [tables EXCEPT ![c] = <<"overridden", r>>]
                                    ELSE IF Broken = "EditsSharedLimits" /\ r \in LimitEditors THEN [tables EXCEPT !["limits"] = <<"edited", r>>]
                                    ELSE tables
                 /\ UNCHANGED <<globals, optobj, horizon, hist, joined, results>>

EmitHistory == Emit => PrintT(ToJson([k |-> "History", h |-> hist, joined |-> joined]))

Compute(r) == /\ pc[1] = "compute" /\ pc[2] = r
              /\ results' = Append(results, <<r, pc[5], pc[3], pc[6], pc[4]>>)
              /\ pc' = <<"idle">>
              /\ EmitHistory
              /\ UNCHANGED <<globals, optobj, tables, horizon, hist, joined>>

Fail(r) == /\ pc[1] = "fail" /\ pc[2] = r
           /\ results' = Append(results, <<r, "failed">>)
           /\ pc' = <<"idle">>
           /\ EmitHistory
           /\ UNCHANGED <<globals, optobj, tables, horizon, hist, joined>>

PNext == \E r \in RunTypes : (\E f \in Forms : Begin(r, f)) \/ Resolve(r) \/ SetGlobals(r) \/ LoadTables(r) \/ Compute(r) \/ Fail(r)
PSpec == PInit /\ [][PNext]_pvars

HistoryIndependent == \A i \in 1..Len(results) : results[i] = Solo(hist[i], joined[i]) \/ (Broken = "ReadsBeforeSet" /\ i = 1)
\* the property proper (what a user relies on): results do not depend on the history at all
ResultDependsOnlyOnRun == \A i \in 1..Len(results) :
   results[i] = (IF hist[i] \in Failing THEN <<hist[i], "failed">>
                 ELSE <<hist[i], hist[i], OwnOptions(hist[i]), OwnTable(hist[i]), OwnHorizonRead(joined[i])>>)
\* nothing that outlives a run is ever modified except the settings
SurvivorsUntouched == optobj = "asgiven" /\ horizon = "settings" /\ \A c \in DOMAIN tables : tables[c] = <<"asread">>

-----------------------------------------------------------------------------
(* C15: aggregate fed fraction over a selection of countries.               *)
CONSTANTS Countries,       \* model values / strings
          Pop,             \* country -> population (natural number)
          RatioGrid        \* possible fractions fed, as <<n, d>>

Bang(c) == "!" \o c
\* selection syntax: empty = all; all entries negated = all others; otherwise exactly the plain entries
Selected(list) ==
  IF list = <<>> THEN Countries
  ELSE IF \A i \in 1..Len(list) : list[i][1] = "!" THEN Countries \ {list[i][2] : i \in 1..Len(list)}
  ELSE {list[i][2] : i \in {j \in 1..Len(list) : list[j][1] = "+"}} \cap Countries     \* a code that is not in the table selects nothing

\* fed = sum pop * min(1, ratio), counted in units of 1 / Den
Den == 400     \* fed is counted in units of 1/400 of a person: min(1, ratio) is exact for every ratio of the grid
RECURSIVE FedTwice(_, _)
FedTwice(S, ratio) == IF S = {} THEN 0
                      ELSE LET c == CHOOSE x \in S : TRUE
                               r == ratio[c]
                               capped2 == IF r[1] >= r[2] THEN Den ELSE (Den * r[1]) \div r[2]  \* ratios are multiples of 1/Den
                           IN Pop[c] * capped2 + FedTwice(S \ {c}, ratio)
RECURSIVE Tot(_)
Tot(S) == IF S = {} THEN 0 ELSE LET c == CHOOSE x \in S : TRUE IN Pop[c] + Tot(S \ {c})

Unknown == "ZZZ"      \* a code that is not in the country table
Entries == {<<"+", c>> : c \in Countries \cup {Unknown}} \cup {<<"!", c>> : c \in Countries \cup {Unknown}}
Lists == {<<>>} \cup {<<a>> : a \in Entries} \cup {<<a, b>> : a \in Entries, b \in Entries}
CONSTANT RatioAssignments   \* the ratio functions Countries -> RatioGrid to enumerate
AggregateCases == {[list |-> l, ratio |-> rt] : l \in Lists, rt \in RatioAssignments}
Within01(l, rt) == LET S == Selected(l) IN 0 <= FedTwice(S, rt) /\ FedTwice(S, rt) <= Den * Tot(S)
AggregateSane == \A x \in AggregateCases : Within01(x.list, x.ratio)
=============================================================================
