------------------------------ MODULE Process ------------------------------
(***************************************************************************)
(* One operating-system process running several (country, scenario) runs   *)
(* one after another (C14), and the multi-country aggregate (C15).         *)
(*                                                                         *)
(* C14.  The only state that survives a run is process-global: the         *)
(* class-level unit-conversion settings (population, requirements,         *)
(* fat / protein flags) that every Food quantity reads.  A run first       *)
(* establishes the settings from its own inputs (SetGlobals) and then      *)
(* computes (Compute), reading the settings.  Its result is a function of  *)
(* its inputs and of the settings it reads; a failing run stops after      *)
(* SetGlobals.  HistoryIndependent: in every history, every run's result   *)
(* equals the result of the same run alone in a fresh process.  The model  *)
(* makes explicit *why* this holds (every read follows the run's own       *)
(* SetGlobals) so that TLC refutes it as soon as a read precedes the set   *)
(* (constant ReadsBeforeSet), and enumerates the histories that are        *)
(* executed for real: in one process, each result compared bit for bit     *)
(* with the same run alone.                                                *)
(*                                                                         *)
(* C15.  Select / Accumulate: see the second half of the module.           *)
(***************************************************************************)
EXTENDS Integers, Sequences, FiniteSets, TLC, Json

CONSTANTS RunTypes,        \* distinguishable runs (different population, nutrition profile, horizon, ...), one may fail
          Failing,         \* the run types that raise after establishing their settings
          MaxLen, ReadsBeforeSet, Emit

VARIABLES globals,   \* the run type whose settings are in force ("fresh" in a new process)
          hist,      \* run types executed so far
          results,   \* results[i] = <<run type, settings read while computing>> or <<run type, "failed">>
          pc         \* <<"idle">> | <<"set", r>> | <<"compute", r, settings read>> | <<"fail", r>>
pvars == <<globals, hist, results, pc>>

Solo(r) == IF r \in Failing THEN <<r, "failed">> ELSE <<r, IF ReadsBeforeSet THEN "fresh" ELSE r>>

PInit == globals = "fresh" /\ hist = <<>> /\ results = <<>> /\ pc = <<"idle">>

Begin(r) == /\ pc[1] = "idle" /\ Len(hist) < MaxLen
            /\ pc' = <<"set", r>> /\ hist' = Append(hist, r)
            /\ UNCHANGED <<globals, results>>

\* with ReadsBeforeSet a run reads the settings left behind by the previous run before installing its own
SetGlobals(r) == /\ pc[1] = "set" /\ pc[2] = r
                 /\ globals' = r
                 /\ pc' = IF r \in Failing THEN <<"fail", r>> ELSE <<"compute", r, IF ReadsBeforeSet THEN globals ELSE r>>
                 /\ UNCHANGED <<hist, results>>

Compute(r) == /\ Len(pc) = 3 /\ pc[1] = "compute" /\ pc[2] = r
              /\ results' = Append(results, <<r, pc[3]>>)
              /\ pc' = <<"idle">>
              /\ Emit => ((Len(hist) = MaxLen \/ TRUE) /\ PrintT(ToJson([k |-> "History", h |-> hist])))
              /\ UNCHANGED <<globals, hist>>

Fail(r) == /\ pc[1] = "fail" /\ pc[2] = r
           /\ results' = Append(results, <<r, "failed">>)
           /\ pc' = <<"idle">>
           /\ Emit => PrintT(ToJson([k |-> "History", h |-> hist]))
           /\ UNCHANGED <<globals, hist>>

PNext == \E r \in RunTypes : Begin(r) \/ SetGlobals(r) \/ Compute(r) \/ Fail(r)
PSpec == PInit /\ [][PNext]_pvars

HistoryIndependent == \A i \in 1..Len(results) : results[i] = Solo(hist[i]) \/ (ReadsBeforeSet /\ i = 1)
\* the property proper (what a user relies on): results do not depend on the history at all
ResultDependsOnlyOnRun == \A i \in 1..Len(results) : results[i] = (IF hist[i] \in Failing THEN <<hist[i], "failed">> ELSE <<hist[i], hist[i]>>)

-----------------------------------------------------------------------------
(* C15: aggregate fed fraction over a selection of countries.               *)
CONSTANTS Countries,       \* model values / strings
          Pop,             \* country -> population (natural number)
          RatioGrid        \* possible fractions fed, as <<n, d>>

Bang(c) == "!" \o c
\* selection syntax: empty = all; all entries negated = all others; otherwise exactly the plain entries
Selected(list) ==
  IF list = <<>> THEN Countries
  ELSE IF \A i \in 1..Len(list) : list[i][1] = "!" THEN Countries \ {list[i][2] : i \in 1..Len(list)}
  ELSE {list[i][2] : i \in {j \in 1..Len(list) : list[j][1] = "+"}}

\* fed = sum pop * min(1, ratio), as the rational <<numerator, denominator>> over a common denominator 2
RECURSIVE FedTwice(_, _)
FedTwice(S, ratio) == IF S = {} THEN 0
                      ELSE LET c == CHOOSE x \in S : TRUE
                               r == ratio[c]
                               capped2 == IF r[1] >= r[2] THEN 2 ELSE (2 * r[1]) \div r[2]      \* ratios are multiples of 1/2
                           IN Pop[c] * capped2 + FedTwice(S \ {c}, ratio)
RECURSIVE Tot(_)
Tot(S) == IF S = {} THEN 0 ELSE LET c == CHOOSE x \in S : TRUE IN Pop[c] + Tot(S \ {c})

Entries == {<<"+", c>> : c \in Countries} \cup {<<"!", c>> : c \in Countries}
Lists == {<<>>} \cup {<<a>> : a \in Entries} \cup {<<a, b>> : a \in Entries, b \in Entries}
CONSTANT RatioAssignments   \* the ratio functions Countries -> RatioGrid to enumerate
AggregateCases == {[list |-> l, ratio |-> rt] : l \in Lists, rt \in RatioAssignments}
Within01(l, rt) == LET S == Selected(l) IN 0 <= FedTwice(S, rt) /\ FedTwice(S, rt) <= 2 * Tot(S)
AggregateSane == \A x \in AggregateCases : Within01(x.list, x.ratio)
=============================================================================
