-------------------------- MODULE Trace_HerdSupply --------------------------
(* Code -> spec for C05: herd objects captured at CalculateFeedAndMeat construction and the time_consts of each Optimizer. *)
EXTENDS HerdSupply
VARIABLES tid, l
Ev(t) == Traces[t].ev
Init == tid \in 1..NT /\ l = 1 /\ HInit
Step ==
  /\ l <= Len(Ev(tid))
  /\ Mark(tid, l)
  /\ LET e == Ev(tid)[l] IN
       CASE e.ev = "Begin" -> BeginS(e)
         [] e.ev = "Month" -> MonthS(e)
         [] e.ev = "End" -> EndS
         [] e.ev = "NoHerd" -> NoHerdS
  /\ l' = l + 1 /\ UNCHANGED tid
Fin == /\ l = Len(Ev(tid)) + 1 /\ Mark(tid, l) /\ Ck("TraceEnded", hended)
       /\ MarkDone(tid) /\ l' = l + 1 /\ UNCHANGED <<tid, hvars>>
Spec == Init /\ [][Step \/ Fin]_<<tid, l, hvars>>
=============================================================================
