CONSTANT Emit = "quick"
