---------------------------- MODULE MC_HerdSupply ----------------------------
(***************************************************************************)
(* Exhaustive design check of HerdSupply.tla on 2 species x 2 months: the  *)
(* class map is total (every species falls in exactly one class), meat and *)
(* milk offered faithfully satisfy every clause, and re-timed meat in the  *)
(* feed round is accepted exactly when its horizon total is preserved.     *)
(***************************************************************************)
EXTENDS HerdSupply
KH == [c \in Classes |-> IF c = "large" THEN I(4) ELSE I(1)]
Hd == {I(0), I(1), I(2)}
MCBegin == \E k \in {"humans", "animals"} : hb.kind = "none" /\
   BeginS([kind |-> k, round |-> IF k = "humans" THEN 3 ELSE 2, n |-> 2, kcalHead |-> KH, wDistMeat |-> I(50), wDistMilk |-> Zero,
           wRetail |-> I(50), milkYield |-> I(12), addMilk |-> TRUE, addMeat |-> TRUE, heads |-> <<>>])
Faith(a, b, p) == Mul(Add(Mul(a, KH["large"]), Mul(b, KH["pig"])), Dec(5000, 1))
MCMonth == \E a \in Hd, b \in Hd, p \in Hd, shift \in {I(0), I(1)}, fe \in {I(0), I(1)}, fc \in {I(0), I(1)} :
   /\ hb.kind # "none" /\ hmon < 2
   /\ MonthS([m |-> hmon, sl |-> <<[class |-> "large", head |-> a], [class |-> "pig", head |-> b]>>, milkPop |-> <<p>>,
              \* in the feed round meat may be moved between months
              meat |-> IF hb.kind = "animals" THEN (IF hmon = 0 THEN Add(Faith(a, b, p), shift) ELSE Sub(Faith(a, b, p), shift))
                       ELSE Faith(a, b, p),
              milk |-> Mul(Mul(p, I(610)), Dec(5000, 1)), feedCharged |-> fc, feedEaten |-> fe, feedOffered |-> I(1), feedRound2 |-> I(1), grassEaten |-> Zero, grass |-> I(1), grass0 |-> I(1), ratio1 |-> I(1), ratioYear |-> I(1)])
MCEnd == hb.kind # "none" /\ ~hended /\ EndS
Spec == HInit /\ [][MCBegin \/ MCMonth \/ MCEnd]_hvars
TotalsTracked == hmon = 2 /\ hb.kind = "humans" => Eq(meatOffered, meatDerived)
=============================================================================
