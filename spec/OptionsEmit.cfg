SPECIFICATION OSpec
CONSTANT Emit = TRUE
CHECK_DEADLOCK FALSE
