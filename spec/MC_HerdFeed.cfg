SPECIFICATION Spec
CONSTANTS
  Exact = TRUE
  MaxMonth = 0
  EmitFeed = TRUE
CHECK_DEADLOCK FALSE
CONSTRAINT FeedingOnly
INVARIANT InvSupplyNonNeg
INVARIANT InvFedWithinHerd
