------------------------------- MODULE Arith -------------------------------
(***************************************************************************)
(* One arithmetic vocabulary for the specifications, with two carriers     *)
(* selected by the Boolean constant Exact:                                 *)
(*   Exact = TRUE   exact small rationals <<n, d>> (module Rat) -- used by *)
(*                  the exhaustive configurations and for behaviours that  *)
(*                  are replayed into the implementation; comparisons are  *)
(*                  exact and a false conjunct disables the action;        *)
(*   Exact = FALSE  limb fixed point (module Num) -- used to validate      *)
(*                  traces recorded from the implementation; comparisons   *)
(*                  carry a tolerance (1e-9 of the larger operand + 1e-6)  *)
(*                  and a false conjunct is noted by name (TraceLib) while *)
(*                  the trace continues from the logged values.            *)
(* (Passing the operators as CONSTANT parameters through INSTANCE made TLC *)
(* re-evaluate arguments call-by-name, exponentially in nesting depth, so  *)
(* the carrier is chosen by first-order dispatch instead.)                 *)
(***************************************************************************)
EXTENDS Integers, Sequences, FiniteSets, Num, Rat, TraceLib

CONSTANT Exact

Pow10000(k) == IF k = 0 THEN 1 ELSE IF k = 1 THEN 10000 ELSE IF k = 2 THEN 100000000 ELSE 0
\* n * 10^-(4k), k in 0..3 (k = 3 only for the limb carrier)
Dec(n, k) == IF Exact THEN R(n, Pow10000(k)) ELSE NOfScaled(n, k)
I(n) == IF Exact THEN RInt(n) ELSE NOfInt(n)
Zero == IF Exact THEN RZero ELSE NZero
One == I(1)
Half == Dec(5000, 1)

Add(x, y) == IF Exact THEN RAdd(x, y) ELSE NAdd(x, y)
Sub(x, y) == IF Exact THEN RSub(x, y) ELSE NSub(x, y)
Mul(x, y) == IF Exact THEN RMul(x, y) ELSE NMul(x, y)
Neg(x) == IF Exact THEN RNeg(x) ELSE NNeg(x)
Abs(x) == IF Exact THEN RAbs(x) ELSE NAbs(x)

TolAbs == NOfScaled(100, 2)    \* 1e-6
TolRel == NOfScaled(1000, 3)   \* 1e-9
\* tolerant comparisons with explicit tolerances (limb carrier) / exact (rational carrier)
\* (the exact test first: most logged quantities are threaded through unchanged, and it is much cheaper)
LeT(x, y, ta, tr) == IF Exact THEN RLe(x, y) ELSE (NLeq(x, y) \/ NLeqTol(x, y, ta, tr))
EqT(x, y, ta, tr) == IF Exact THEN REq(x, y) ELSE (x = y \/ NWithin(x, y, ta, tr))
Le(x, y) == LeT(x, y, TolAbs, TolRel)
Eq(x, y) == EqT(x, y, TolAbs, TolRel)
SLt(x, y) == ~Le(y, x)             \* x < y by more than the tolerance
\* exact order of the carrier (no tolerance), for choosing maxima / minima
XLe(x, y) == IF Exact THEN RLe(x, y) ELSE NLeq(x, y)
Max(x, y) == IF XLe(x, y) THEN y ELSE x
Min(x, y) == IF XLe(x, y) THEN x ELSE y
NonNeg(x) == Le(Zero, x)
MaxZ(x) == IF XLe(Zero, x) THEN x ELSE Zero

RECURSIVE SumSeq(_)
SumSeq(q) == IF q = <<>> THEN Zero ELSE Add(Head(q), SumSeq(Tail(q)))
RECURSIVE SumOver(_, _)
SumOver(S, f) == IF S = {} THEN Zero
                 ELSE LET x == CHOOSE y \in S : TRUE IN Add(f[x], SumOver(S \ {x}, f))

\* a named conjunct of an action
\* (cond = TRUE keeps TLC from splitting disjunctions inside cond into alternative steps)
Ck(name, cond) == IF Exact THEN (cond = TRUE) ELSE TCk(name, cond)
=============================================================================
