--------------------------- MODULE Trace_Pipeline ---------------------------
(* Code -> spec for C17: recorded script executions, rows of the combined table, and averaging-helper calls. *)
EXTENDS Pipeline
VARIABLES tid, l
Ev(t) == Traces[t].ev
Init == tid \in 1..NT /\ l = 1 /\ BInit
Step ==
  /\ l <= Len(Ev(tid))
  /\ Mark(tid, l)
  /\ LET e == Ev(tid)[l] IN
       CASE e.ev = "Ran" -> RanOK(e) /\ UNCHANGED bvars
         [] e.ev = "Row" -> RowOK(e) /\ UNCHANGED bvars
         [] e.ev = "Table" -> TableOK(e) /\ UNCHANGED bvars
         [] e.ev = "Avg" -> AvgOK(e) /\ UNCHANGED bvars
  /\ l' = l + 1 /\ UNCHANGED tid
Fin == l = Len(Ev(tid)) + 1 /\ MarkDone(tid) /\ l' = l + 1 /\ UNCHANGED <<tid, bvars>>
Spec == Init /\ [][Step \/ Fin]_<<tid, l, bvars>>
=============================================================================
