-------------------------------- MODULE Mono --------------------------------
(***************************************************************************)
(* Laws of a single people-maximising round (C12), as relations between    *)
(* the optimum z0 of an instance and the optimum z1 of a perturbed copy:   *)
(*   more_supply  one supply entry (or the initial stock) increased        *)
(*   less_waste   one retail-waste percentage decreased      => z1 >= z0   *)
(*   more_charge  the feed or biofuel charge increased       => z1 <= z0   *)
(*   scale        population and every supply times k        => z1  = z0   *)
(* Optima are percentages; LP tolerance 1e-5 relative + 1e-5 absolute.     *)
(* A perturbed instance that the solver finds infeasible is legal only for *)
(* more_charge (the charge may exceed what feed-capable food exists).      *)
(***************************************************************************)
EXTENDS Arith
MAbs == NOfScaled(1000, 2)     \* 1e-5
MRel == NOfScaled(1000, 2)     \* 1e-5
MLe(x, y) == LeT(x, y, MAbs, MRel)

PairOK(e) ==
  CASE e.kind \in {"more_supply", "less_waste"} -> Ck("MoreSupplyNeverFeedsFewer", e.solved /\ MLe(e.z0, e.z1))
    [] e.kind = "more_charge" -> Ck("MoreChargeNeverFeedsMore", ~e.solved \/ MLe(e.z1, e.z0))
    [] e.kind = "scale" -> Ck("ScaleFree", e.solved /\ MLe(e.z0, e.z1) /\ MLe(e.z1, e.z0))

VARIABLES tid, l
Ev(t) == Traces[t].ev
Init == tid \in 1..NT /\ l = 1
Step == /\ l <= Len(Ev(tid)) /\ Mark(tid, l) /\ PairOK(Ev(tid)[l]) /\ l' = l + 1 /\ UNCHANGED tid
Fin == l = Len(Ev(tid)) + 1 /\ MarkDone(tid) /\ l' = l + 1 /\ UNCHANGED tid
Spec == Init /\ [][Step \/ Fin]_<<tid, l>>
=============================================================================
