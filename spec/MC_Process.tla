----------------------------- MODULE MC_Process -----------------------------
EXTENDS Process
C4 == {"ARG", "DJI", "NZL", "USA"}
PopTab == [c \in C4 |-> CASE c = "ARG" -> 45 [] c = "DJI" -> 1 [] c = "NZL" -> 5 [] c = "USA" -> 330]
Grid == {<<0, 1>>, <<1, 2>>, <<1, 1>>, <<3, 2>>}
AllAssignments == [C4 -> Grid]
\* quick: every country takes every grid value at least once, in eight assignments
FewAssignments == {[c \in C4 |-> g] : g \in Grid} \cup
                  {[c \in C4 |-> IF c = "ARG" THEN <<3, 2>> ELSE <<1, 2>>], [c \in C4 |-> IF c = "USA" THEN <<0, 1>> ELSE <<3, 2>>],
                   [c \in C4 |-> IF c \in {"DJI", "NZL"} THEN <<1, 1>> ELSE <<1, 2>>], [c \in C4 |-> IF c = "DJI" THEN <<3, 2>> ELSE <<0, 1>>]}
ASSUME AggregateSane
ASSUME Emit => \A x \in AggregateCases :
   PrintT(ToJson([k |-> "Aggregate", list |-> x.list, ratio |-> x.ratio, selected |-> Selected(x.list),
                  fed2 |-> FedTwice(Selected(x.list), x.ratio), tot |-> Tot(Selected(x.list))]))
=============================================================================
