----------------------------- MODULE MC_Process -----------------------------
EXTENDS Process
\* four countries of different size, one that the low-resolution world map does not contain (MUS) and one whose map code differs (SWT)
C4 == {"ARG", "DJI", "NZL", "USA", "MUS", "SWT"}
Core == {"ARG", "DJI", "NZL", "USA"}
PopTab == [c \in C4 |-> CASE c = "ARG" -> 45 [] c = "DJI" -> 1 [] c = "NZL" -> 5 [] c = "USA" -> 330 [] c = "MUS" -> 2 [] c = "SWT" -> 3]
Grid == {<<0, 1>>, <<1, 2>>, <<1, 1>>, <<3, 2>>}
\* quick: every country takes every grid value at least once, in eight assignments
FewAssignments == {[c \in C4 |-> g] : g \in Grid} \cup
                  {[c \in C4 |-> IF c \in {"ARG", "SWT"} THEN <<3, 2>> ELSE <<1, 2>>], [c \in C4 |-> IF c = "USA" THEN <<0, 1>> ELSE <<3, 2>>],
                   [c \in C4 |-> IF c \in {"DJI", "NZL"} THEN <<1, 1>> ELSE <<1, 2>>], [c \in C4 |-> IF c \in {"DJI", "MUS"} THEN <<3, 2>> ELSE <<0, 1>>],
                   \* just below one: nothing is rounded up to "fully fed"
                   [c \in C4 |-> IF c \in {"ARG", "MUS"} THEN <<399, 400>> ELSE <<1, 2>>], [c \in C4 |-> <<399, 400>>]}
\* thorough: every assignment over the four core countries x {1/2, 3/2} for the two map specials
AllAssignments == {[c \in C4 |-> IF c \in Core THEN f[c] ELSE g[c]] : f \in [Core -> Grid], g \in [{"MUS", "SWT"} -> {<<1, 2>>, <<3, 2>>}]} \cup FewAssignments
CountryTab == [r \in RunTypes |-> CASE r \in {"r_arg_base", "r_bad", "r_arg_kf", "r_arg_herd", "r_arg_own48"} -> "ARG" [] r = "r_nzl_base" -> "NZL"
                                     [] r \in {"r_dji_res", "r_dji_capoff"} -> "DJI" [] r = "r_wor" -> "WOR" [] r = "r_alb_kf" -> "ALB"]
OptTab == [r \in RunTypes |-> IF r \in {"r_alb_kf", "r_arg_kf"} THEN "known_to_fail_for_ALB" ELSE IF r \in {"r_arg_base", "r_nzl_base"} THEN "net_baseline" ELSE r]
PosTab == [c \in {"ALB", "ARG", "DJI", "NZL", "WOR"} |-> CASE c = "ALB" -> 1 [] c = "ARG" -> 5 [] c = "DJI" -> 40 [] c = "NZL" -> 88 [] c = "WOR" -> 999]
ASSUME AggregateSane
ASSUME Emit => \A x \in AggregateCases :
   PrintT(ToJson([k |-> "Aggregate", list |-> x.list, ratio |-> x.ratio, selected |-> Selected(x.list),
                  fed2 |-> FedTwice(Selected(x.list), x.ratio), tot |-> Tot(Selected(x.list))]))
=============================================================================
