------------------------------ MODULE Pipeline ------------------------------
(***************************************************************************)
(* The import pipeline (src/import_scripts_no_food_trade, C17) as a build  *)
(* graph over files.  Every script declares the files it reads and the one *)
(* file it writes; files carry a content identity.  Running a script whose *)
(* inputs are present rewrites its output to Derive(script, inputs); the   *)
(* repository ships every derived file, and the claim is Fresh: what each  *)
(* script derives from the shipped raw data is exactly the shipped file.   *)
(*                                                                         *)
(* TLC checks the graph (one producer per derived file, every derived      *)
(* input has a producer, no cycle, the combined table last, the order of   *)
(* scripts/run_all_imports.sh is a linear extension of the dependencies)   *)
(* and explores the machine: in every order that respects the              *)
(* dependencies the final state is the same and no script ever reads a     *)
(* file that a later script would still change (NoStaleRead).  Recorded    *)
(* executions (audit hook on `open`) are validated against the declared    *)
(* reads / writes and Fresh; the rows of the combined table against RowOK; *)
(* the percentage-averaging helper against Avg.                            *)
(***************************************************************************)
EXTENDS Arith

RAW == "raw_data/"
PRO == "processed_data/"
XLSX == RAW \o "Integrated Model With No Food Trade.xlsx"
SUPP == "data/Supplemental_Data.xlsx"
FOODPROD == RAW \o "FAOSTAT_food_production_2020.csv"

\* script -> [reads, writes]
IO == [
  create_aquaculture_csv |-> [reads |-> {XLSX}, writes |-> PRO \o "aquaculture_csv.csv"],
  create_grasses_baseline_csv |-> [reads |-> {XLSX}, writes |-> PRO \o "grasses_baseline_csv.csv"],
  create_scp_csv |-> [reads |-> {XLSX}, writes |-> PRO \o "scp_csv.csv"],
  create_biofuel_csv |-> [reads |-> {XLSX}, writes |-> PRO \o "biofuel_csv.csv"],
  create_greenhouse_csv |-> [reads |-> {XLSX}, writes |-> PRO \o "greenhouse_csv.csv"],
  create_seasonality_csv |-> [reads |-> {XLSX}, writes |-> PRO \o "seasonality_csv.csv"],
  create_crop_macros_csv |-> [reads |-> {SUPP, FOODPROD}, writes |-> PRO \o "macros_csv.csv"],
  create_head_count_csv |-> [reads |-> {RAW \o "FAOSTAT_animal_stocks_2020.csv", RAW \o "FAOSTAT_cow_heads_2020.csv"},
                             writes |-> PRO \o "head_count_csv.csv"],
  create_seaweed_csv |-> [reads |-> {XLSX}, writes |-> PRO \o "seaweed_csv.csv"],
  create_relocation_improvement_csv |-> [reads |-> {XLSX}, writes |-> PRO \o "improvement_csv.csv"],
  create_dairy_csv |-> [reads |-> {XLSX}, writes |-> PRO \o "dairy_csv.csv"],
  create_meat_csv |-> [reads |-> {RAW \o "FAOSTAT_meat_2020.csv"}, writes |-> PRO \o "meat_csv.csv"],
  create_feed_csv |-> [reads |-> {XLSX}, writes |-> PRO \o "feed_csv.csv"],
  create_nuclear_winter_csv |-> [reads |-> {SUPP, FOODPROD, RAW \o "rutgers_nw_production_raw.csv"}, writes |-> PRO \o "nuclear_winter_csv.csv"],
  create_food_stock_csv |-> [reads |-> {XLSX}, writes |-> PRO \o "food_stock_csv.csv"],
  create_population_csv |-> [reads |-> {XLSX}, writes |-> PRO \o "population_csv.csv"],
  create_food_waste_csv |-> [reads |-> {XLSX}, writes |-> PRO \o "food_waste_csv.csv"],
  create_pulp_csv |-> [reads |-> {RAW \o "FAOSTAT_wood_pulp_2021.csv"}, writes |-> PRO \o "pulp_csv.csv"],
  create_milk_per_animal_csv |-> [reads |-> {XLSX, PRO \o "head_count_csv.csv"}, writes |-> PRO \o "milk_per_animal_csv.csv"],
  create_meat_per_animal_csv |-> [reads |-> {XLSX, PRO \o "head_count_csv.csv"}, writes |-> PRO \o "meat_per_animal_csv.csv"],
  import_food_data |-> [reads |-> {PRO \o f : f \in {"aquaculture_csv.csv", "biofuel_csv.csv", "dairy_csv.csv", "feed_csv.csv",
        "food_stock_csv.csv", "food_waste_csv.csv", "grasses_baseline_csv.csv", "greenhouse_csv.csv", "head_count_csv.csv",
        "improvement_csv.csv", "macros_csv.csv", "meat_csv.csv", "meat_per_animal_csv.csv", "milk_per_animal_csv.csv",
        "nuclear_winter_csv.csv", "population_csv.csv", "pulp_csv.csv", "scp_csv.csv", "seasonality_csv.csv", "seaweed_csv.csv"}},
                        writes |-> "computer_readable_combined.csv"] ]

AllScripts == DOMAIN IO
ShippedOrder == <<"create_aquaculture_csv", "create_grasses_baseline_csv", "create_scp_csv", "create_biofuel_csv", "create_greenhouse_csv",
                  "create_seasonality_csv", "create_crop_macros_csv", "create_head_count_csv", "create_seaweed_csv",
                  "create_relocation_improvement_csv", "create_dairy_csv", "create_meat_csv", "create_feed_csv",
                  "create_nuclear_winter_csv", "create_food_stock_csv", "create_population_csv", "create_food_waste_csv",
                  "create_pulp_csv", "create_milk_per_animal_csv", "create_meat_per_animal_csv", "import_food_data">>

Derived == {IO[s].writes : s \in AllScripts}
Producer(f) == CHOOSE s \in AllScripts : IO[s].writes = f
DependsOn(s) == {Producer(f) : f \in IO[s].reads \cap Derived}
Pos(s) == CHOOSE i \in 1..Len(ShippedOrder) : ShippedOrder[i] = s

OneProducerPerFile == \A s, t \in AllScripts : IO[s].writes = IO[t].writes => s = t
OrderCoversAll == {ShippedOrder[i] : i \in 1..Len(ShippedOrder)} = AllScripts /\ Len(ShippedOrder) = Cardinality(AllScripts)
OrderRespectsDependencies == \A s \in AllScripts : \A d \in DependsOn(s) : Pos(d) < Pos(s)
CombinedLast == ShippedOrder[Len(ShippedOrder)] = "import_food_data" /\ \A s \in AllScripts : "computer_readable_combined.csv" \notin IO[s].reads
ASSUME OneProducerPerFile
ASSUME OrderCoversAll
ASSUME OrderRespectsDependencies
ASSUME CombinedLast

\* ------------------------------------------------------------- the machine
CONSTANT Universe     \* the scripts explored by the machine (all of them, or the dependent core for a quick run)
VARIABLES ran,        \* scripts run so far
          version,    \* derived file -> "shipped" | "rebuilt"
          stale       \* a script read a derived file that was rebuilt afterwards
bvars == <<ran, version, stale>>
BInit == ran = {} /\ version = [f \in {IO[s].writes : s \in Universe} |-> "shipped"] /\ stale = FALSE
RunScript(s) ==
  /\ s \in Universe \ ran
  /\ DependsOn(s) \cap Universe \subseteq ran          \* the order respects the dependencies
  /\ ran' = ran \cup {s}
  /\ version' = [version EXCEPT ![IO[s].writes] = "rebuilt"]
  /\ stale' = (stale \/ \E f \in IO[s].reads \cap DOMAIN version : version[f] = "shipped" /\ Producer(f) \in Universe \ ran)
BSpec == BInit /\ [][\E s \in Universe : RunScript(s)]_bvars
NoStaleRead == ~stale
Confluent == (ran = Universe) => \A f \in DOMAIN version : version[f] = "rebuilt"

\* -------------------------------------------------- trace clauses (code -> spec)
\* e = [script, reads, writes, identical]: what one recorded execution of a script opened, and whether every file it wrote has
\* the same content identity (sha-256) as the shipped file
RanOK(e) ==
  /\ Ck("KnownScript", e.script \in AllScripts)
  /\ Ck("DeclaredReads", \A i \in 1..Len(e.reads) : e.reads[i] \in IO[e.script].reads)
  /\ Ck("ReadsAllDeclared", \A f \in IO[e.script].reads : \E i \in 1..Len(e.reads) : e.reads[i] = f)
  /\ Ck("DeclaredWrites", Len(e.writes) = 1 /\ e.writes[1] = IO[e.script].writes)
  /\ Ck("Fresh", e.identical)
  /\ Ck("ScriptSucceeded", e.rc = 0)

\* one row of the combined table; numbers as limb values, `nulls` = number of empty cells
RowOK(e) ==
  /\ Ck("NoMissingValues", e.nulls = 0)
  /\ Ck("SeasonalitySumsToOne", EqT(SumSeq(e.seasonality), One, NOfScaled(100, 2), TolRel) /\ \A i \in 1..12 : NonNeg(e.seasonality[i]) /\ Le(e.seasonality[i], One))
  /\ Ck("FractionsWithin01", \A i \in 1..Len(e.fractions) : NonNeg(e.fractions[i]) /\ Le(e.fractions[i], One))
  /\ Ck("ReductionsNotBelowMinus100", \A i \in 1..Len(e.reductions) : Le(Neg(One), e.reductions[i]))
  /\ Ck("QuantitiesNonNeg", \A i \in 1..Len(e.quantities) : NonNeg(e.quantities[i]))
TableOK(e) == /\ Ck("OneRowPerCountry", e.rows = e.distinct /\ e.rows = e.expected)

\* weighted average of percentages, ignoring impossible values (< -100 % or > 100000 %)
Valid(p) == Le(Dec(-1000000, 1), p) /\ Le(p, I(100000))       \* -100 <= p <= 100000
AvgOK(e) ==
  LET idx == {i \in 1..Len(e.p) : Valid(e.p[i])} IN
  IF idx = {} THEN Ck("SentinelWhenNoneValid", e.sentinel)
  ELSE /\ Ck("IgnoresImpossibleValues", ~e.sentinel)
       /\ Ck("AverageWithinValidRange", /\ \E i \in idx : Le(e.p[i], e.result)
                                        /\ \E i \in idx : Le(e.result, e.p[i]))
       \* result * (sum of valid weights) = sum of valid p * w
       /\ Ck("AverageIsWeightedMean", Eq(Mul(e.result, SumOver(idx, [i \in 1..Len(e.p) |-> e.w[i]])),
                                         SumOver(idx, [i \in 1..Len(e.p) |-> Mul(e.p[i], e.w[i])])))
=============================================================================
