SPECIFICATION Spec
CONSTANT Depth = 1
CHECK_DEADLOCK FALSE
