----------------------------- MODULE Trace_Herd -----------------------------
(***************************************************************************)
(* Code -> spec: traces recorded from animal_populations.main() (wrapper   *)
(* around AnimalSpecies.feed_the_species plus the lists main() returns)    *)
(* are validated against the actions of Herd.tla in limb fixed-point       *)
(* arithmetic (Exact = FALSE).  Head counts are in head, energies in       *)
(* billion kcal, meat per head in kcal, labour in hours: the recorder      *)
(* performs no arithmetic on them.                                         *)
(***************************************************************************)
EXTENDS Herd

VARIABLES tid, l
tvars == <<tid, l>>
Ev(t) == Traces[t].ev
Hdr(t) == Traces[t].hdr

Invariants == /\ Ck("InvHeadCountsNonNeg", InvHeadCountsNonNeg)
              /\ Ck("InvSupplyNonNeg", InvSupplyNonNeg)
              /\ Ck("InvHoursNonNeg", InvHoursNonNeg)
              /\ Ck("InvFedWithinHerd", InvFedWithinHerd)

Init == /\ tid \in 1..NT
        /\ l = 1
        /\ Init0(Hdr(tid).attr, Hdr(tid).pop0)

Step ==
  /\ l <= Len(Ev(tid))
  /\ Mark(tid, l)
  \* state invariants, once a month, on the state the month's events led to (unprimed: TLC cannot cache
  \* lazily evaluated arguments under a prime, which made primed limb arithmetic exponentially slow)
  /\ (Ev(tid)[l].ev = "EndMonth") => Invariants
  /\ LET e == Ev(tid)[l] IN
       CASE e.ev = "BeginMonth" -> BeginMonth(e)
         [] e.ev = "Feed"       -> Feed(e.s, e)
         [] e.ev = "EndFeeding" -> EndFeeding(e)
         [] e.ev = "Births"     -> Births(e.s, e)
         [] e.ev = "Slaughter"  -> Slaughter(e.s, e)
         [] e.ev = "Close"      -> Close(e.s, e)
         [] e.ev = "EndMonth"   -> EndMonth
  /\ l' = l + 1
  /\ UNCHANGED tid

Finish == /\ l = Len(Ev(tid)) + 1
          /\ Mark(tid, l)
          /\ Invariants
          /\ MarkDone(tid)
          /\ l' = l + 1
          /\ UNCHANGED <<tid, vars>>

Next == Step \/ Finish
Spec == Init /\ [][Next]_<<tvars, vars>>
=============================================================================
