SPECIFICATION OSpec
CHECK_DEADLOCK FALSE
CONSTRAINT Mark
VIEW View
POSTCONDITION Laws
