------------------------------ MODULE MC_Rounds ------------------------------
(***************************************************************************)
(* Exhaustive exploration of the round protocol on a 2-month horizon with  *)
(* small integer percentages.  Round results are chosen freely within the  *)
(* guards, so the model shows (a) which event orders are legal, (b) that   *)
(* every started run can finish (Done or Failed is always reachable:       *)
(* EventuallyEnds under weak fairness), and (c) that the C03 clauses are   *)
(* satisfiable together (Done is reachable both with and without feed).    *)
(***************************************************************************)
EXTENDS Rounds
P == {I(0), I(5), I(50)}
Parts(x) == <<x, Zero, Zero, Zero, Zero>>
MCStart == \E t \in {I(10), I(100)}, d \in {I(0), I(20)}, sh \in {0, 1, 2} :
   Start([T |-> t, Tcfg |-> t, demF |-> [m \in 1..2 |-> IF m <= sh THEN d ELSE Zero], demB |-> <<Zero, Zero>>, shutF |-> sh, shutB |-> 0, shutFcfg |-> sh, shutBcfg |-> 0, feedYear |-> d, feedYearCfg |-> d, bioYear |-> Zero, bioYearCfg |-> Zero])
MCRound == \E r \in {1, 2, 3}, pf \in P, f1 \in {I(0), I(20)}, f2 \in {I(0), I(20)} :
   Round([r |-> r, pf |-> pf, statuses |-> <<1, 1, 1>>, feed |-> <<Parts(f1), Parts(f2)>>, bio |-> <<Parts(Zero), Parts(Zero)>>])
MCSkip == Skip("rounds12") \/ Skip("round2")
Next == MCStart \/ MCRound \/ MCSkip \/ Done \/ (phase \notin {"done", "failed", "init"} /\ Failed)
Spec == RInit /\ [][Next]_rvars /\ WF_rvars(Next)
EventuallyEnds == (phase = "started") ~> (phase \in {"done", "failed"})
PhaseOK == phase \in {"init", "started", "r1", "r2", "skip2", "skip12", "r3", "done", "failed"}
\* a finished run that starved was not charged feed (a consequence of Done's guard: the spec is consistent)
DoneMeansPolicy == phase = "done" => (SLt(pf3, Sub(T, Tenth)) => \A m \in 1..Len(used3) : Le(used3[m], Tenth))
=============================================================================
