------------------------------ MODULE Optimum ------------------------------
(***************************************************************************)
(* "Percent fed is the true optimum" (C02) on small instances, decided by  *)
(* exhaustive search.                                                      *)
(*                                                                         *)
(* An instance is a people-maximising round with N months, a stock of      *)
(* stored food, monthly crops, slaughter and single-cell protein, a retail *)
(* waste gross-up g (people draw g units per unit eaten), a feed charge    *)
(* per month, the stock regime (storage between years or not), and a       *)
(* target: one more than the (integer) worst-month consumption the real    *)
(* Optimizer reported for the same instance.  All quantities are integers  *)
(* (supplies are multiples of 2 * lcm(1..N), so the optimum of the         *)
(* max-min problem lies on the grid).                                      *)
(*                                                                         *)
(* The behaviours of this module are exactly the month-by-month            *)
(* allocations that are physically feasible (the constraints of            *)
(* Ledger.tla: no overdraw of stock, crops, meat; monthly cap for          *)
(* single-cell protein; feed drawn equals the charge; stored food and      *)
(* crops fully used at the end when food is stored between years) and in   *)
(* which every month feeds at least `target`.  Reaching the end of the     *)
(* horizon therefore exhibits a feasible allocation that feeds more than   *)
(* the code reported: invariant NoBetter, and TLC's counterexample is that *)
(* allocation.  Without loss of generality months before the last eat      *)
(* exactly `target` (anything else can be deferred: every stock carries    *)
(* forward, protein need not be used) and the last month eats all it can.  *)
(***************************************************************************)
EXTENDS Integers, Sequences, FiniteSets, TLC, Json, IOUtils

Insts == JsonDeserialize(IOEnv.INST_FILE)   \* sequence of [n, g, sf, crops, meat, scp, feed, store, target, id]

VARIABLES iid, mon, sf, crop, meatSup, meatUse, hist
ovars == <<iid, mon, sf, crop, meatSup, meatUse, hist>>
I == Insts[iid]

OInit == /\ iid \in 1..Len(Insts) /\ mon = 0 /\ sf = Insts[iid].sf /\ crop = 0 /\ meatSup = 0 /\ meatUse = 0 /\ hist = <<>>

Min2(a, b) == IF a < b THEN a ELSE b
Max2(a, b) == IF a > b THEN a ELSE b

\* meat that may be eaten this month (in eaten units): cumulative in the storage regime, this month's slaughter otherwise
MeatRoom(m) == IF I.store THEN (meatSup + I.meat[m] - meatUse) \div I.g ELSE I.meat[m] \div I.g

Step ==
  /\ mon < I.n
  /\ LET m == mon + 1
         last == (m = I.n)
         cropAvail == crop + I.crops[m]
     IN
     \E fSf \in 0..Min2(I.feed[m], sf), fCrop \in 0..Min2(I.feed[m], cropAvail) :
       LET fScp == I.feed[m] - fSf - fCrop IN
       /\ fScp >= 0 /\ fScp <= I.scp[m]                                  \* feed drawn = the charge, from feed-capable foods
       /\ LET sfLeft == sf - fSf
              cropLeft == cropAvail - fCrop
              scpRoom == (I.scp[m] - fScp) \div I.g
              room == MeatRoom(m)
          IN
          IF last
          THEN \* eat everything that can be eaten; stocks must come out empty when food is stored between years
               /\ LET hSf == sfLeft \div I.g  hCrop == cropLeft \div I.g
                      fed == hSf + hCrop + room + scpRoom IN
                  /\ fed >= I.target
                  /\ (I.store => (sfLeft % I.g = 0 /\ cropLeft % I.g = 0))
                  /\ sf' = sfLeft - I.g * hSf /\ crop' = cropLeft - I.g * hCrop
                  /\ meatSup' = (IF I.store THEN meatSup + I.meat[m] ELSE 0) /\ meatUse' = (IF I.store THEN meatUse + I.g * room ELSE 0)
                  /\ hist' = Append(hist, [sf |-> hSf, crops |-> hCrop, meat |-> room, scp |-> scpRoom, feed |-> <<fSf, fCrop, fScp>>])
          ELSE \E hSf \in 0..Min2(I.target, sfLeft \div I.g), hCrop \in 0..Min2(I.target, cropLeft \div I.g), e \in 0..Min2(I.target, room) :
               LET hScp == I.target - hSf - hCrop - e IN
               /\ hScp >= 0 /\ hScp <= scpRoom
               \* in the first-year-only regime stored food may not be eaten after month 12 (index 13 on)
               /\ (~I.store /\ m > 13 => hSf = 0 /\ fSf = 0)
               /\ sf' = sfLeft - I.g * hSf /\ crop' = cropLeft - I.g * hCrop
               \* (the running meat totals only matter when meat can be kept: otherwise they are not part of the state)
               /\ meatSup' = (IF I.store THEN meatSup + I.meat[m] ELSE 0) /\ meatUse' = (IF I.store THEN meatUse + I.g * e ELSE 0)
               /\ hist' = Append(hist, [sf |-> hSf, crops |-> hCrop, meat |-> e, scp |-> hScp, feed |-> <<fSf, fCrop, fScp>>])
  /\ mon' = mon + 1
  /\ UNCHANGED iid

(***************************************************************************)
(* The feed-maximising round (mode "animals").  People's consumption is    *)
(* pinned (I.hSf, I.hCrop, I.hMeat per month, drawn g units per unit       *)
(* eaten); feed and biofuel are drawn from stored food and crops, each     *)
(* within its monthly ceiling and never rising from one month to the next; *)
(* nothing has to be used up.  The score 2 * feed + biofuel (three times   *)
(* the code's objective) accumulates in meatUse; at the end of the horizon *)
(* the best score of the instance is kept in a TLC register.               *)
(***************************************************************************)
StepA ==
  /\ mon < I.n
  /\ LET m == mon + 1
         sfAvail == sf - I.g * I.hSf[m]
         cropAvail == crop + I.crops[m] - I.g * I.hCrop[m]
         fPrev == IF mon = 0 THEN I.maxF[1] ELSE meatSup \div 1000
         bPrev == IF mon = 0 THEN I.maxB[1] ELSE meatSup % 1000
     IN
     /\ sfAvail >= 0 /\ cropAvail >= 0
     /\ \E fSf \in 0..Min2(sfAvail, I.maxF[m]), bSf \in 0..Min2(sfAvail, I.maxB[m]) :
        \E fCrop \in 0..Min2(cropAvail, I.maxF[m]), bCrop \in 0..Min2(cropAvail, I.maxB[m]) :
          LET f == fSf + fCrop  b == bSf + bCrop IN
          /\ fSf + bSf <= sfAvail /\ fCrop + bCrop <= cropAvail
          /\ f <= I.maxF[m] /\ b <= I.maxB[m] /\ f <= fPrev /\ b <= bPrev
          /\ sf' = sfAvail - fSf - bSf /\ crop' = cropAvail - fCrop - bCrop
          /\ meatSup' = 1000 * f + b          \* previous month's feed and biofuel totals (packed)
          /\ meatUse' = meatUse + 2 * f + b   \* score so far
          /\ hist' = Append(hist, [feed |-> <<fSf, fCrop>>, bio |-> <<bSf, bCrop>>])
  /\ mon' = mon + 1
  /\ UNCHANGED iid

OSpec == OInit /\ [][(I.mode # "animals" /\ Step) \/ (I.mode = "animals" /\ StepA)]_ovars

\* no physically feasible allocation feeds `target` (= reported optimum + 1 grid unit) in every month
NoBetter == ~(mon = I.n)
\* the allocation history is not part of the state identity
View == <<iid, mon, sf, crop, meatSup, meatUse>>
=============================================================================
