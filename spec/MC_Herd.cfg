SPECIFICATION Spec
CONSTANTS
  Exact = TRUE
  MaxMonth = 0
  EmitFeed = FALSE
CHECK_DEADLOCK FALSE
INVARIANT InvHeadCountsNonNeg
INVARIANT InvSupplyNonNeg
INVARIANT InvHoursNonNeg
INVARIANT InvFedWithinHerd
INVARIANT NoStuck
