---------------------------- MODULE Trace_Rounds ----------------------------
(* Code -> spec for C03 / C16: one trace per recorded run (events from wrappers around run_optimizer, the Validator
   statics and the compute_parameters methods). *)
EXTENDS Rounds
VARIABLES tid, l
Ev(t) == Traces[t].ev
Init == tid \in 1..NT /\ l = 1 /\ RInit
Step ==
  /\ l <= Len(Ev(tid))
  /\ Mark(tid, l)
  /\ LET e == Ev(tid)[l] IN
       CASE e.ev = "Start" -> Start(e)
         [] e.ev = "Round" -> Round(e)
         [] e.ev = "Skip" -> Skip(e.which)
         [] e.ev = "Validator" -> Validator(e)
         [] e.ev = "Done" -> Done
         [] e.ev = "Failed" -> Failed
  /\ l' = l + 1 /\ UNCHANGED tid
Fin == /\ l = Len(Ev(tid)) + 1 /\ Mark(tid, l)
       /\ Ck("Completed", phase \in {"done", "failed"})
       /\ MarkDone(tid) /\ l' = l + 1 /\ UNCHANGED <<tid, rvars>>
Spec == Init /\ [][Step \/ Fin]_<<tid, l, rvars>>
=============================================================================
