---------------------------- MODULE Trace_Ledger ----------------------------
(***************************************************************************)
(* Code -> spec for C01: one trace per solved optimisation round of every  *)
(* recorded run.  Supplies are the round's inputs captured at              *)
(* Optimizer.__init__ (time_consts / consts_for_optimizer), allocations    *)
(* the LP variables' values after the last solve.  Events: Begin, Month    *)
(* (one per simulated month), Finish.                                      *)
(***************************************************************************)
EXTENDS Ledger

VARIABLES tid, l
Ev(t) == Traces[t].ev

Init == tid \in 1..NT /\ l = 1 /\ LInit

Step ==
  /\ l <= Len(Ev(tid))
  /\ Mark(tid, l)
  /\ LET e == Ev(tid)[l] IN
       CASE e.ev = "Begin" -> Begin(e.c)
         [] e.ev = "Month" -> Month(e)
         [] e.ev = "Finish" -> Finish(e.n, e.z)
  /\ l' = l + 1
  /\ UNCHANGED tid

Done == /\ l = Len(Ev(tid)) + 1
        /\ Mark(tid, l)
        /\ Ck("TraceEndsFinished", done)
        /\ MarkDone(tid)
        /\ l' = l + 1
        /\ UNCHANGED <<tid, lvars>>

Next == Step \/ Done
Spec == Init /\ [][Next]_<<tid, l, lvars>>
=============================================================================
