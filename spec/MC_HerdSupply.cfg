SPECIFICATION Spec
CONSTANT Exact = TRUE
CHECK_DEADLOCK FALSE
INVARIANT TotalsTracked
