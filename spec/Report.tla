------------------------------- MODULE Report -------------------------------
(***************************************************************************)
(* Reporting of a solved round: extraction of the LP allocation, its       *)
(* interpretation in percent fed and kcals-equivalent, the headline and    *)
(* the table written to disk (C04).  Quantities are in percent of the      *)
(* monthly requirement; the LP allocation is normalised by the requirement *)
(* only (one constant per trace), so "each contribution equals the         *)
(* optimiser's allocation converted to the reporting unit" is an equality  *)
(* checked here, with the documented roundings as named relations.         *)
(*                                                                         *)
(*   Begin(kind, z, pf, KD, swKcal)                                        *)
(*   Month(m, alloc, reported, keq, csv, fed, immediate, newStored)         *)
(*   End                                                                   *)
(***************************************************************************)
EXTENDS Arith

Foods == <<"stored_food", "outdoor_crops", "seaweed", "cell_sugar", "scp", "greenhouse", "fish", "meat", "milk">>
VARIABLES rb, rmon, minFed, minReported, ended
pvars == <<rb, rmon, minFed, minReported, ended>>

Half3 == NOfScaled(50100, 2)    \* 0.000501: a value rounded to 3 decimals
Half1 == NOfScaled(501, 1)      \* 0.05  (+ slack): a value rounded to 1 decimal
RTol == NOfScaled(10, 2)        \* 1e-7 absolute for conversions (pure float arithmetic on percent-sized numbers)
QEq(x, y) == EqT(x, y, RTol, TolRel)
Rounded3(x, y) == IF Exact THEN QEq(x, y) ELSE NLeq(NAbs(NSub(x, y)), Half3)
Rounded1(x, y) == IF Exact THEN QEq(x, y) ELSE NLeq(NAbs(NSub(x, y)), Half1)

\* (the feed and biofuel series are reported to one decimal of a kcal per person per day at most)
UseEq(x, y) == QEq(x, y)

PInit == rb = [kind |-> "none"] /\ rmon = 0 /\ minFed = Zero /\ minReported = Zero /\ ended = FALSE

BeginR(e) ==
  \* a round's result is final once interpreted: later rounds and checks only read it
  /\ Ck("ResultUnchangedAfterwards", e.unchanged)
  /\ rb' = e /\ rmon' = 0 /\ minFed' = Zero /\ minReported' = Zero /\ ended' = FALSE

RECURSIVE SumF(_, _)
SumF(r, k) == IF k = 0 THEN Zero ELSE Add(r[Foods[k]], SumF(r, k - 1))

(* alloc: the LP's (and the inputs') human consumption per food in percent; reported: the interpreter's percent series;
   keq / csv: kcals-equivalent series returned and written; fed: the interpreter's monthly total *)
MonthR(e) ==
  LET al == [e.alloc EXCEPT !.seaweed = Mul(e.alloc.seaweed, rb.swKcal)]
      sumAlloc == SumF(al, 9)
      sumRep == SumF(e.reported, 9)
  IN
  /\ Ck("MonthsInOrder", e.m = rmon)
  /\ Ck("ContributionIsAllocation",
        /\ Rounded3(e.reported.stored_food, al.stored_food) /\ Rounded3(e.reported.outdoor_crops, al.outdoor_crops)
        /\ QEq(e.reported.seaweed, al.seaweed) /\ QEq(e.reported.cell_sugar, al.cell_sugar) /\ QEq(e.reported.scp, al.scp)
        /\ QEq(e.reported.greenhouse, al.greenhouse) /\ QEq(e.reported.fish, al.fish) /\ QEq(e.reported.meat, al.meat)
        /\ QEq(e.reported.milk, al.milk))
  /\ Ck("MonthlyTotalIsSum", QEq(e.fed, sumAlloc))
  \* kcals-equivalent = percent / 100 * KD, i.e. keq * 100 = percent * KD
  /\ Ck("KcalsEquivalent",
        /\ QEq(Mul(e.keq.stored_food, I(100)), Mul(al.stored_food, rb.kd)) /\ QEq(Mul(e.keq.seaweed, I(100)), Mul(al.seaweed, rb.kd))
        /\ QEq(Mul(e.keq.cell_sugar, I(100)), Mul(al.cell_sugar, rb.kd)) /\ QEq(Mul(e.keq.scp, I(100)), Mul(al.scp, rb.kd))
        /\ QEq(Mul(e.keq.greenhouse, I(100)), Mul(al.greenhouse, rb.kd)) /\ QEq(Mul(e.keq.fish, I(100)), Mul(al.fish, rb.kd))
        /\ QEq(Mul(e.keq.meat, I(100)), Mul(al.meat, rb.kd)) /\ QEq(Mul(e.keq.milk, I(100)), Mul(al.milk, rb.kd)))
  \* (only the sum is claimed: the "immediate" part is production net of that month's feed and biofuel and can be negative)
  /\ Ck("SplitAddsUp", QEq(Mul(Add(e.keq.immediate_outdoor_crops, e.keq.new_stored_outdoor_crops), I(100)), Mul(al.outdoor_crops, rb.kd)))
  \* the part attributed to newly stored crops is what was eaten beyond that month's net production: never negative
  /\ Ck("FromNewStorageNonNeg", NonNeg(e.keq.new_stored_outdoor_crops))
  /\ Ck("CsvEqualsResult", \A c \in DOMAIN e.keq : QEq(e.csv[c], e.keq[c]))
  \* what the result says went to feed and to biofuel, food by food, is what the optimiser sent there (seaweed by its energy content)
  /\ Ck("FeedBiofuelReportIsAllocation", ~e.hasUse \/ \A f \in DOMAIN e.useAlloc :
        LET k == IF f = "seaweed" THEN rb.swKcal ELSE One
        IN /\ UseEq(Mul(e.useKeq[f].feed, I(100)), Mul(Mul(e.useAlloc[f].feed, k), rb.kd))
           /\ UseEq(Mul(e.useKeq[f].bio, I(100)), Mul(Mul(e.useAlloc[f].bio, k), rb.kd)))
  /\ rmon' = rmon + 1
  /\ minFed' = IF rmon = 0 THEN e.fed ELSE Min(minFed, e.fed)
  /\ minReported' = IF rmon = 0 THEN sumRep ELSE Min(minReported, sumRep)
  /\ UNCHANGED <<rb, ended>>

EndR ==
  /\ Ck("AllMonthsReported", rmon = rb.n)
  /\ Ck("HeadlineIsMinOfMonthlyTotals", QEq(rb.pf, minFed))
  \* against the reported (rounded) contributions: three series rounded to 3 decimals
  /\ Ck("HeadlineIsMinOfReportedSums", IF Exact THEN QEq(rb.pf, minReported)
                                       ELSE NLeq(NAbs(NSub(rb.pf, minReported)), NOfScaled(20, 1)))
  \* the tie-breaking solves keep the optimum within 0.01 %
  /\ Ck("HeadlineNearOptimum", rb.kind # "humans" \/
          IF Exact THEN QEq(rb.pf, rb.z)
          ELSE NLeq(NAbs(NSub(rb.pf, rb.z)), NAdd(NMul(NOfScaled(1, 1), NAbs(rb.z)), RTol)))
  /\ ended' = TRUE
  /\ UNCHANGED <<rb, rmon, minFed, minReported>>
=============================================================================
