------------------------------- MODULE Num -------------------------------
(***************************************************************************)
(* Exact signed fixed-point arithmetic for TLC (whose integers are 32-bit  *)
(* and which has no reals).                                                *)
(*                                                                         *)
(* A number is a record [s |-> 1 | -1, m |-> <<l1, l2, ...>>] whose        *)
(* magnitude m is a little-endian sequence of base-10^4 limbs without      *)
(* leading (i.e. trailing-in-the-sequence) zero limbs; the value is        *)
(*      s * (l1 + l2*B + l3*B^2 + ...) * 10^-12                            *)
(* so the three lowest limbs are the fraction (FRAC = 3).  NZero is         *)
(* [s |-> 1, m |-> <<>>].  The recorder in harness/limbs.py emits exactly  *)
(* this shape (JSON numbers >= 2^31 are mangled by JsonDeserialize, hence  *)
(* limbs).  Everything here is plain TLA+, no Java overrides.              *)
(***************************************************************************)
EXTENDS Integers, Sequences

B == 10000
FRAC == 3

\* ---------------------------------------------------------------- magnitudes
RECURSIVE MTrim(_)
MTrim(a) == IF a = <<>> THEN a
            ELSE IF a[Len(a)] = 0 THEN MTrim(SubSeq(a, 1, Len(a) - 1)) ELSE a

RECURSIVE MAddC(_, _, _)
MAddC(a, b, c) ==
  IF a = <<>> /\ b = <<>> THEN (IF c = 0 THEN <<>> ELSE <<c>>)
  ELSE LET x == IF a = <<>> THEN 0 ELSE Head(a)
           y == IF b = <<>> THEN 0 ELSE Head(b)
           s == x + y + c
       IN <<s % B>> \o MAddC(IF a = <<>> THEN <<>> ELSE Tail(a),
                            IF b = <<>> THEN <<>> ELSE Tail(b), s \div B)
MAdd(a, b) == MAddC(a, b, 0)

\* comparison of canonical magnitudes: -1, 0, 1
RECURSIVE MCmpFrom(_, _, _)
MCmpFrom(a, b, i) == IF i = 0 THEN 0
                     ELSE IF a[i] < b[i] THEN -1
                     ELSE IF a[i] > b[i] THEN 1
                     ELSE MCmpFrom(a, b, i - 1)
MCmp(a, b) == IF Len(a) < Len(b) THEN -1
              ELSE IF Len(a) > Len(b) THEN 1
              ELSE MCmpFrom(a, b, Len(a))

\* a - b for a >= b (canonical result)
RECURSIVE MSubB(_, _, _)
MSubB(a, b, br) ==
  IF a = <<>> THEN <<>>
  ELSE LET y == IF b = <<>> THEN 0 ELSE Head(b)
           d == Head(a) - y - br
       IN IF d < 0 THEN <<d + B>> \o MSubB(Tail(a), IF b = <<>> THEN <<>> ELSE Tail(b), 1)
                   ELSE <<d>> \o MSubB(Tail(a), IF b = <<>> THEN <<>> ELSE Tail(b), 0)
MSub(a, b) == MTrim(MSubB(a, b, 0))

RECURSIVE MMulS(_, _, _)
MMulS(a, k, c) ==
  IF a = <<>> THEN (IF c = 0 THEN <<>> ELSE <<c % B>> \o MMulS(<<>>, k, c \div B))
  ELSE LET p == Head(a) * k + c IN <<p % B>> \o MMulS(Tail(a), k, p \div B)

RECURSIVE MMul(_, _)
MMul(a, b) == IF b = <<>> \/ a = <<>> THEN <<>>
              ELSE MAdd(MMulS(a, Head(b), 0), <<0>> \o MMul(a, Tail(b)))

MShiftDown(a, k) == IF Len(a) <= k THEN <<>> ELSE SubSeq(a, k + 1, Len(a))

\* ------------------------------------------------------------- signed numbers
NZero == [s |-> 1, m |-> <<>>]
NIsNum(x) == /\ x.s \in {1, -1}
            /\ \A i \in 1..Len(x.m) : x.m[i] \in 0..(B - 1)
            /\ (x.m # <<>> => x.m[Len(x.m)] # 0)
            /\ (x.m = <<>> => x.s = 1)
NMk(s, m) == LET t == MTrim(m) IN [s |-> IF t = <<>> THEN 1 ELSE s, m |-> t]

NNeg(x) == NMk(-x.s, x.m)
NAbs(x) == NMk(1, x.m)
NAdd(x, y) == IF x.s = y.s THEN NMk(x.s, MAdd(x.m, y.m))
             ELSE LET c == MCmp(x.m, y.m)
                  IN IF c = 0 THEN NZero
                     ELSE IF c > 0 THEN NMk(x.s, MSub(x.m, y.m))
                     ELSE NMk(y.s, MSub(y.m, x.m))
NSub(x, y) == NAdd(x, NNeg(y))
\* fixed-point product, truncated towards zero at 10^-12
NMul(x, y) == NMk(x.s * y.s, MShiftDown(MMul(x.m, y.m), FRAC))

NCmp(x, y) == IF x.s # y.s THEN (IF x.s > y.s THEN 1 ELSE -1)
             ELSE x.s * MCmp(x.m, y.m)
NLeq(x, y) == NCmp(x, y) <= 0
NLt(x, y)  == NCmp(x, y) < 0
NGeq(x, y) == NCmp(x, y) >= 0
NGt(x, y)  == NCmp(x, y) > 0
NMax(x, y) == IF NGeq(x, y) THEN x ELSE y
NMin(x, y) == IF NLeq(x, y) THEN x ELSE y
NIsZero(x) == x.m = <<>>
NNonNeg(x) == x.s = 1

\* small naturals and rationals k / 10^e (e <= 12) as numbers
RECURSIVE MOfNat(_)
MOfNat(n) == IF n = 0 THEN <<>> ELSE <<n % B>> \o MOfNat(n \div B)
NOfInt(n) == IF n >= 0 THEN NMk(1, <<0, 0, 0>> \o MOfNat(n))
            ELSE NMk(-1, <<0, 0, 0>> \o MOfNat(-n))
NOne == NOfInt(1)
\* n * 10^-(4k)  for k in 0..3
NOfScaled(n, k) == LET z == [i \in 1..(FRAC - k) |-> 0]
                  IN IF n >= 0 THEN NMk(1, z \o MOfNat(n)) ELSE NMk(-1, z \o MOfNat(-n))
NMulInt(x, n) == IF n >= 0 THEN NMk(x.s, MMulS(x.m, n, 0)) ELSE NMk(-x.s, MMulS(x.m, -n, 0))

\* |a - b| <= tolAbs + tolRel * max(|a|,|b|)
NWithin(a, b, tolAbs, tolRel) ==
  NLeq(NAbs(NSub(a, b)), NAdd(tolAbs, NMul(tolRel, NMax(NAbs(a), NAbs(b)))))
\* a <= b + tolAbs + tolRel * max(|a|,|b|)
NLeqTol(a, b, tolAbs, tolRel) ==
  NLeq(NSub(a, b), NAdd(tolAbs, NMul(tolRel, NMax(NAbs(a), NAbs(b)))))

RECURSIVE NSumSeq(_)
NSumSeq(q) == IF q = <<>> THEN NZero ELSE NAdd(Head(q), NSumSeq(Tail(q)))

\* r is (within tol) the reciprocal of d:  r * d = 1   -- lets a trace carry a
\* quotient that the specification verifies by multiplication only.
NIsRecip(r, d, tolRel) == NWithin(NMul(r, d), NOne, NOfScaled(1, 3), tolRel)
=============================================================================
