----------------------------- MODULE MC_Ledger -----------------------------
(***************************************************************************)
(* Exhaustive configuration of Ledger.tla: 3 months, stored food, crops,   *)
(* meat and single-cell protein with unit-size supplies, retail waste 0 or *)
(* 50 % (g = 1 or 2), allocations on an integer grid.  Every allocation    *)
(* the guards admit is explored; the invariants say that nothing that      *)
(* exists ever goes negative, and NoStuck that a round can always be       *)
(* completed (e.g. by eating what is left: free disposal into human        *)
(* consumption).                                                           *)
(***************************************************************************)
EXTENDS Ledger

CONSTANT NMonths
Grid == {I(0), I(1), I(2)}
Caps100 == [sw |-> I(100), scp |-> I(100), cs |-> I(100)]
Z3 == [h |-> Zero, f |-> Zero, b |-> Zero]

MCBegin == \E kind \in {"humans", "animals"}, w \in {I(0), I(50)}, s0 \in Grid :
  LET g == IF w = I(0) THEN I(1) ELSE I(2) IN
  Begin([kind |-> kind, gSf |-> g, wSf |-> w, gCrop |-> g, wCrop |-> w, gMeat |-> g, wMeat |-> w, gScp |-> g, wScp |-> w,
         gCs |-> g, wCs |-> w, gSw |-> g, wSw |-> w, wRetail |-> w, swKcal |-> I(1), swInit |-> Zero, swInitArea |-> Zero,
         swMinDens |-> I(1), swMaxDens |-> I(1), swLoss |-> Zero, sfInitial |-> s0, store |-> TRUE, popNeed |-> I(1), monthDays |-> I(30),
         capH |-> Caps100, capF |-> Caps100, capB |-> Caps100, capsCfg |-> "unknown", storeCfg |-> "unknown"])

MCMonth == \E crops \in {I(0), I(2)}, meat \in {I(0), I(2)}, charge \in {I(0), I(1)},
              sfh \in Grid, sff \in {I(0), I(1)}, ch \in Grid, cf \in {I(0), I(1)}, me \in Grid :
  Month([m |-> mon,
         sup |-> [crops |-> crops, meat |-> meat, scp |-> Zero, cs |-> Zero, built |-> Zero, growth |-> Zero,
                  feed |-> charge, bio |-> Zero, chargeF |-> charge, chargeB |-> Zero, milk |-> Zero, fish |-> Zero, gh |-> Zero],
         a |-> [sf |-> [h |-> sfh, f |-> sff, b |-> Zero], crops |-> [h |-> ch, f |-> cf, b |-> Zero],
                scp |-> Z3, cs |-> Z3, sw |-> [h |-> Zero, f |-> Zero, b |-> Zero, wet |-> Zero, area |-> Zero],
                meat |-> me],
         pin |-> [sf |-> sfh, crops |-> ch, meat |-> me, scp |-> Zero, cs |-> Zero, sw |-> Zero]])

MCFinish == mon = NMonths /\ Finish(NMonths, IF rc.kind = "humans" THEN fedMin ELSE RDiv(score, R(3, 1)))
Next == MCBegin \/ (mon < NMonths /\ MCMonth) \/ MCFinish
Spec == LInit /\ [][Next]_lvars
=============================================================================
