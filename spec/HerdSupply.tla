----------------------------- MODULE HerdSupply -----------------------------
(***************************************************************************)
(* Coupling of the herd simulation to the optimiser's inputs (C05).        *)
(* One trace per optimisation round: the species tables of the herd        *)
(* simulation that feeds that round, and the meat / milk / feed series the *)
(* optimiser is told.                                                      *)
(*   BeginS  yields per head by class, waste percentages, milk yield        *)
(*   MonthS  slaughter per species, milking herds, meat and milk offered,   *)
(*           feed charged / eaten, grass eaten / available                  *)
(*   EndS    horizon totals                                                 *)
(* Slaughter is in million head, milking herds in head, milk in thousand    *)
(* kcal, other energies in billion kcal, meat yield in billion kcal per million head, milk yield in *)
(* kg per head per year.                                                   *)
(***************************************************************************)
EXTENDS Arith

Classes == {"chicken", "pig", "small", "medium", "large"}
VARIABLES hb, hmon, meatOffered, meatDerived, anyCharge, anyEaten, hended
hvars == <<hb, hmon, meatOffered, meatDerived, anyCharge, anyEaten, hended>>

HInit == hb = [kind |-> "none"] /\ hmon = 0 /\ meatOffered = Zero /\ meatDerived = Zero /\ anyCharge = FALSE
         /\ anyEaten = FALSE /\ hended = FALSE

Pct(x) == Mul(x, Dec(100, 1))
\* Per-head meat yields [billion kcal per million head = kcal per head / 1000], from the documented carcass weights and energy
\* densities: chicken and pig weights are country inputs, small / medium animals 2.36 / 24.6 kg, large animals 269.7 kg unless
\* overridden (kg_meat_per_large_animal); 1525 / 3590 / 2750 kcal per kg for small / medium / large animals.
YieldOK(kh, kg) ==
  /\ Eq(Mul(kh["chicken"], I(1000)), Mul(kg.chicken, I(1525))) /\ Eq(Mul(kh["pig"], I(1000)), Mul(kg.pig, I(3590)))
  /\ Eq(Mul(kh["small"], I(1000)), Mul(Dec(23600, 1), I(1525))) /\ Eq(Mul(kh["medium"], I(1000)), Mul(Dec(246000, 1), I(3590)))
  /\ Eq(Mul(kh["large"], I(1000)), Mul(kg.large, I(2750)))
\* milk is logged in thousand kcal: 12 months x 10^3 (the exhaustive configuration counts milk in kcal, so 12 there)
MilkScale == IF Exact THEN I(12) ELSE I(12000)

\* every herd simulation starts from the head counts of the country's row of the stock table, except the species the scenario
\* overrides (in thousand head; e.heads = sequence of [initial, configured])
BeginS(e) == /\ Ck("StartsFromConfiguredHeads", Exact \/ \A i \in 1..Len(e.heads) : Eq(e.heads[i].initial, e.heads[i].configured))
             /\ Ck("YieldsAsDocumented", Exact \/ YieldOK(e.kcalHead, e.kg))
             /\ hb' = e /\ hmon' = 0 /\ meatOffered' = Zero /\ meatDerived' = Zero /\ anyCharge' = FALSE
             /\ anyEaten' = FALSE /\ hended' = FALSE

RECURSIVE SumSl(_, _)
SumSl(q, k) == IF k = 0 THEN Zero ELSE Add(Mul(q[k].head, hb.kcalHead[q[k].class]), SumSl(q, k - 1))
RECURSIVE SumPop(_, _)
SumPop(q, k) == IF k = 0 THEN Zero ELSE Add(q[k], SumPop(q, k - 1))

(* e = [m, sl (sequence of [class, head]), milkPop (sequence of heads), meat, milk, feedCharged, feedEaten, grassEaten, grass] *)
MonthS(e) ==
  LET derived == Mul(SumSl(e.sl, Len(e.sl)), Sub(One, Pct(hb.wDistMeat)))
      pop == SumPop(e.milkPop, Len(e.milkPop))
  IN
  /\ Ck("MonthsInOrder", e.m = hmon)
  /\ Ck("ClassesKnown", \A i \in 1..Len(e.sl) : e.sl[i].class \in Classes)
  /\ Ck("MeatFromHerd", (hb.kind = "humans" /\ hb.addMeat) => Eq(e.meat, derived))
  \* milk [thousand kcal] * 12000 = herd [head] * yield [kg/head/yr] * 610 kcal/kg * (1 - distribution waste)(1 - retail waste)
  /\ Ck("MilkFromHerd", IF hb.addMilk
                        THEN Eq(Mul(e.milk, MilkScale),
                                Mul(Mul(Mul(Mul(pop, hb.milkYield), I(610)), Sub(One, Pct(hb.wDistMilk))), Sub(One, Pct(hb.wRetail))))
                        ELSE Eq(e.milk, Zero))
  /\ Ck("FeedCoversHerd", hb.round # 3 \/ Le(e.feedEaten, e.feedCharged))
  \* the ceiling of the feed-maximising round is what its herds eat when offered the whole demand - not the demand itself
  /\ Ck("CeilingIsWhatHerdsEat", hb.round # 2 \/ Eq(e.feedCharged, e.feedEaten))
  \* the herds never eat more feed than they were offered; the final round's herds are offered at most what the
  \* feed-maximising round allocated to feed (its result less the safety margin), never the full demand
  /\ Ck("EatenWithinOffered", Le(e.feedEaten, e.feedOffered))
  /\ Ck("FinalHerdOnRound2Feed", hb.round # 3 \/ Le(e.feedOffered, e.feedRound2))
  /\ Ck("GrassWithin", NonNeg(e.grassEaten) /\ Le(e.grassEaten, e.grass))
  \* the grass on offer follows the documented calendar: the first month's amount times the disruption ratio of the month's model
  \* year over that of year 1 (8 months, then twelve-month years, the last one sixteen months long)
  /\ Ck("GrassAsScheduled", Eq(Mul(e.grass, e.ratio1), Mul(e.grass0, e.ratioYear)))
  /\ Ck("FeedEatenNonNeg", NonNeg(e.feedEaten))
  /\ hmon' = hmon + 1
  /\ meatOffered' = Add(meatOffered, e.meat) /\ meatDerived' = Add(meatDerived, derived)
  /\ anyCharge' = (anyCharge \/ SLt(Zero, e.feedCharged))
  /\ anyEaten' = (anyEaten \/ SLt(Zero, e.feedEaten))
  /\ UNCHANGED <<hb, hended>>

\* a round whose meat and milk cannot be traced to a herd simulation of this very run (none was built in this run for it)
NoHerdS == /\ Ck("HerdSimulatedThisRun", FALSE)
           /\ hended' = TRUE
           /\ UNCHANGED <<hb, hmon, meatOffered, meatDerived, anyCharge, anyEaten>>

EndS ==
  /\ Ck("AllMonths", hmon = hb.n)
  /\ Ck("MeatTotalFromHerd", hb.addMeat => EqT(meatOffered, meatDerived, NOfScaled(1000, 2), NOfScaled(1000, 3)))
  \* a round that charges no feed runs its herds on no feed
  /\ Ck("ZeroFeedZeroUse", hb.kind = "animals" \/ anyCharge \/ ~anyEaten)
  /\ hended' = TRUE
  /\ UNCHANGED <<hb, hmon, meatOffered, meatDerived, anyCharge, anyEaten>>
=============================================================================
