
