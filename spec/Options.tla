------------------------------- MODULE Options -------------------------------
(***************************************************************************)
(* Scenario options (src/scenarios/scenarios.py, run_scenario.py           *)
(* set_depending_on_option).                                               *)
(*                                                                         *)
(* A Scenarios object has one exactly-once flag per option family.  Each   *)
(* setter belongs to a family, may require the global or the country       *)
(* scale, and may write only the constants its family owns.  The           *)
(* dispatcher walks the families in a fixed order, picks the setter named  *)
(* by the option value and refuses unknown or missing values; the caller's *)
(* dictionary is never modified; numeric overrides change exactly the      *)
(* constant they name.                                                     *)
(*                                                                         *)
(* TLC explores the machine (all sequences of up to two setters after the  *)
(* scale is chosen; all single-family corruptions of a valid option        *)
(* dictionary; all override keys) and emits every transition; each is      *)
(* replayed on the real Scenarios / ScenarioRunner objects.  The tables    *)
(* Family, NeedsScale, Owns and Doc are transcribed from scenarios/README  *)
(* and the setters' docstrings and are exported as JSON for the replayer.  *)
(***************************************************************************)
EXTENDS Integers, Sequences, FiniteSets, TLC, Json

CONSTANT Emit

\* ------------------------------------------------------------------ tables
\* setter -> <<family, scale it requires ("any" | "global" | "country")>>
SetterTab == [
  set_immediate_shutoff |-> <<"shutoff", "any">>, set_one_month_delayed_shutoff |-> <<"shutoff", "any">>,
  set_short_delayed_shutoff |-> <<"shutoff", "any">>, set_long_delayed_shutoff |-> <<"shutoff", "any">>,
  set_continued_feed_biofuels |-> <<"shutoff", "any">>, set_continued_after_10_percent_fed |-> <<"shutoff", "any">>,
  set_long_delayed_shutoff_after_10_percent_fed |-> <<"shutoff", "any">>,
  set_breeding_to_greatly_reduced |-> <<"meat_strategy", "any">>, set_to_baseline_breeding |-> <<"meat_strategy", "any">>,
  set_to_feed_only_ruminants |-> <<"meat_strategy", "any">>,
  set_waste_to_zero |-> <<"waste", "any">>, set_global_waste_to_tripled_prices |-> <<"waste", "global">>,
  set_global_waste_to_doubled_prices |-> <<"waste", "global">>, set_global_waste_to_baseline_prices |-> <<"waste", "global">>,
  set_country_waste_to_tripled_prices |-> <<"waste", "country">>, set_country_waste_to_doubled_prices |-> <<"waste", "country">>,
  set_country_waste_to_baseline_prices |-> <<"waste", "country">>,
  set_baseline_nutrition_profile |-> <<"nutrition", "any">>, set_catastrophe_nutrition_profile |-> <<"nutrition", "any">>,
  set_intake_constraints_to_enabled |-> <<"intake_constraints", "any">>,
  set_intake_constraints_to_disabled_for_humans |-> <<"intake_constraints", "any">>,
  set_no_stored_food |-> <<"stored_food", "any">>, set_baseline_stored_food |-> <<"stored_food", "any">>,
  set_stored_food_buffer_zero |-> <<"ratio_stocks_untouched", "any">>,
  set_no_stored_food_between_years |-> <<"ratio_stocks_untouched", "any">>,
  set_stored_food_buffer_as_baseline |-> <<"ratio_stocks_untouched", "any">>,
  set_stored_food_buffer_as_baseline_and_no_stored_between_years |-> <<"ratio_stocks_untouched", "any">>,
  set_no_seasonality |-> <<"seasonality", "any">>, set_global_seasonality_baseline |-> <<"seasonality", "global">>,
  set_global_seasonality_nuclear_winter |-> <<"seasonality", "global">>, set_country_seasonality |-> <<"seasonality", "country">>,
  set_grasses_baseline |-> <<"grasses", "any">>, set_global_grasses_nuclear_winter |-> <<"grasses", "global">>,
  set_country_grasses_nuclear_winter |-> <<"grasses", "country">>, set_country_grasses_to_zero |-> <<"grasses", "country">>,
  set_fish_zero |-> <<"fish", "any">>, set_fish_nuclear_winter_reduction |-> <<"fish", "any">>, set_fish_baseline |-> <<"fish", "any">>,
  set_disruption_to_crops_to_zero |-> <<"crop_disruption", "any">>,
  set_nuclear_winter_global_disruption_to_crops |-> <<"crop_disruption", "global">>,
  set_nuclear_winter_country_disruption_to_crops |-> <<"crop_disruption", "country">>, set_zero_crops |-> <<"crop_disruption", "any">>,
  include_protein |-> <<"protein", "any">>, dont_include_protein |-> <<"protein", "any">>,
  include_fat |-> <<"fat", "any">>, dont_include_fat |-> <<"fat", "any">>,
  cull_animals |-> <<"cull", "any">>, dont_cull_animals |-> <<"cull", "any">>,
  get_all_resilient_foods_scenario |-> <<"scenario", "any">>, get_all_resilient_foods_and_more_area_scenario |-> <<"scenario", "any">>,
  get_no_resilient_food_scenario |-> <<"scenario", "any">>, get_seaweed_scenario |-> <<"scenario", "any">>,
  get_methane_scp_scenario |-> <<"scenario", "any">>, get_cellulosic_sugar_scenario |-> <<"scenario", "any">>,
  get_relocated_crops_scenario |-> <<"scenario", "any">>, get_greenhouse_scenario |-> <<"scenario", "any">>,
  get_industrial_foods_scenario |-> <<"scenario", "any">> ]

Setters == DOMAIN SetterTab
Family(s) == SetterTab[s][1]
NeedsScale(s) == SetterTab[s][2]
Families == {Family(s) : s \in Setters}

\* the constants a family may write (top-level keys; "DELAY.X" names one entry of the DELAY dictionary)
Owns == [
  shutoff |-> {"DELAY.FEED_SHUTOFF_MONTHS", "DELAY.BIOFUEL_SHUTOFF_MONTHS", "MINIMUM_PERCENT_FED_BEFORE_NONHUMAN_CONSUMPTION_ALLOWED"},
  meat_strategy |-> {"BREEDING_STRATEGY"},
  waste |-> {"WASTE_DISTRIBUTION", "WASTE_RETAIL"},
  nutrition |-> {"NUTRITION.KCALS_DAILY", "NUTRITION.FAT_DAILY", "NUTRITION.PROTEIN_DAILY"},
  intake_constraints |-> {"MAX_SEAWEED_AS_PERCENT_KCALS_HUMANS", "MAX_CELLULOSIC_SUGAR_AS_PERCENT_KCALS_HUMANS",
                          "MAX_METHANE_SCP_AS_PERCENT_KCALS_HUMANS", "MAX_SEAWEED_AS_PERCENT_KCALS_FEED",
                          "MAX_CELLULOSIC_SUGAR_AS_PERCENT_KCALS_FEED", "MAX_METHANE_SCP_AS_PERCENT_KCALS_FEED",
                          "MAX_SEAWEED_AS_PERCENT_KCALS_BIOFUEL", "MAX_CELLULOSIC_SUGAR_AS_PERCENT_KCALS_BIOFUEL",
                          "MAX_METHANE_SCP_AS_PERCENT_KCALS_BIOFUEL"},
  stored_food |-> {"STORE_FOOD_BETWEEN_YEARS", "PERCENT_STORED_FOOD_TO_USE", "ADD_STORED_FOOD"},
  ratio_stocks_untouched |-> {"STORE_FOOD_BETWEEN_YEARS", "RATIO_STOCKS_UNTOUCHED"},
  seasonality |-> {"SEASONALITY"},
  grasses |-> {"RATIO_GRASSES_YEAR" \o ToString(i) : i \in 1..11},
  fish |-> {"FISH_PERCENT_MONTHLY"},
  crop_disruption |-> {"RATIO_CROPS_YEAR" \o ToString(i) : i \in 1..11} \cup {"ADD_OUTDOOR_GROWING", "RATIO_OF_CROP_YIELDS_FROM_VERY_BEGINNING"},
  protein |-> {"INCLUDE_PROTEIN"}, fat |-> {"INCLUDE_FAT"},
  cull |-> {"ADD_MEAT", "ADD_MILK"},
  scenario |-> {"INDUSTRIAL_FOODS_SLOPE_MULTIPLIER", "RATIO_INCREASED_CROP_AREA", "OG_USE_BETTER_ROTATION", "ADD_CELLULOSIC_SUGAR",
                "ADD_GREENHOUSES", "ADD_METHANE_SCP", "ADD_SEAWEED", "DELAY.SEAWEED_MONTHS", "GREENHOUSE_GAIN_PCT",
                "DELAY.GREENHOUSE_MONTHS", "GREENHOUSE_AREA_MULTIPLIER", "ROTATION_IMPROVEMENTS",
                "NUMBER_YEARS_TAKES_TO_REACH_INCREASED_AREA", "DELAY.INDUSTRIAL_FOODS_MONTHS"} ]

\* option family -> value -> setter (the dispatcher's table)
Dispatch == [
  stored_food |-> [zero |-> "set_no_stored_food", baseline |-> "set_baseline_stored_food"],
  ratio_stocks_untouched |-> [zero |-> "set_stored_food_buffer_zero", no_stored_between_years |-> "set_no_stored_food_between_years",
                              baseline |-> "set_stored_food_buffer_as_baseline",
                              baseline_no_stored_between_years |-> "set_stored_food_buffer_as_baseline_and_no_stored_between_years"],
  shutoff |-> [immediate |-> "set_immediate_shutoff", one_month_delayed_shutoff |-> "set_one_month_delayed_shutoff",
               short_delayed_shutoff |-> "set_short_delayed_shutoff", long_delayed_shutoff |-> "set_long_delayed_shutoff",
               continued |-> "set_continued_feed_biofuels", continued_after_10_percent_fed |-> "set_continued_after_10_percent_fed",
               long_delayed_shutoff_after_10_percent_fed |-> "set_long_delayed_shutoff_after_10_percent_fed"],
  waste |-> [zero |-> "set_waste_to_zero", tripled_prices_in_country |-> "set_country_waste_to_tripled_prices",
             doubled_prices_in_country |-> "set_country_waste_to_doubled_prices", baseline_in_country |-> "set_country_waste_to_baseline_prices",
             tripled_prices_globally |-> "set_global_waste_to_tripled_prices", doubled_prices_globally |-> "set_global_waste_to_doubled_prices",
             baseline_globally |-> "set_global_waste_to_baseline_prices"],
  nutrition |-> [baseline |-> "set_baseline_nutrition_profile", catastrophe |-> "set_catastrophe_nutrition_profile"],
  intake_constraints |-> [enabled |-> "set_intake_constraints_to_enabled", disabled_for_humans |-> "set_intake_constraints_to_disabled_for_humans"],
  seasonality |-> [no_seasonality |-> "set_no_seasonality", country |-> "set_country_seasonality",
                   baseline_globally |-> "set_global_seasonality_baseline", nuclear_winter_globally |-> "set_global_seasonality_nuclear_winter"],
  grasses |-> [baseline |-> "set_grasses_baseline", global_nuclear_winter |-> "set_global_grasses_nuclear_winter",
               country_nuclear_winter |-> "set_country_grasses_nuclear_winter", all_crops_die_instantly |-> "set_country_grasses_to_zero"],
  fish |-> [zero |-> "set_fish_zero", nuclear_winter |-> "set_fish_nuclear_winter_reduction", baseline |-> "set_fish_baseline"],
  crop_disruption |-> [zero |-> "set_disruption_to_crops_to_zero", global_nuclear_winter |-> "set_nuclear_winter_global_disruption_to_crops",
                       country_nuclear_winter |-> "set_nuclear_winter_country_disruption_to_crops", all_crops_die_instantly |-> "set_zero_crops"],
  protein |-> [not_required |-> "dont_include_protein"],
  fat |-> [not_required |-> "dont_include_fat"],
  cull |-> [do_eat_culled |-> "cull_animals", dont_eat_culled |-> "dont_cull_animals"],
  scenario |-> [all_resilient_foods |-> "get_all_resilient_foods_scenario",
                all_resilient_foods_and_more_area |-> "get_all_resilient_foods_and_more_area_scenario",
                no_resilient_foods |-> "get_no_resilient_food_scenario", seaweed |-> "get_seaweed_scenario",
                methane_scp |-> "get_methane_scp_scenario", cellulosic_sugar |-> "get_cellulosic_sugar_scenario",
                relocated_crops |-> "get_relocated_crops_scenario", greenhouse |-> "get_greenhouse_scenario",
                industrial_foods |-> "get_industrial_foods_scenario"],
  meat_strategy |-> [reduce_breeding |-> "set_breeding_to_greatly_reduced", baseline_breeding |-> "set_to_baseline_breeding",
                     feed_only_ruminants |-> "set_to_feed_only_ruminants"] ]

OptionFamilies == DOMAIN Dispatch
Values(f) == DOMAIN Dispatch[f]

\* documented effect of a value, as <<constant, value>> pairs ("N" stands for the horizon NMONTHS)
\* losses between farm and shop, per food group (seaweed is handled like seafood)
RowDistribution == {<<"WASTE_DISTRIBUTION.SUGAR", "row:distribution_loss_sugar">>, <<"WASTE_DISTRIBUTION.CROPS", "row:distribution_loss_crops">>,
                    <<"WASTE_DISTRIBUTION.MEAT", "row:distribution_loss_meat">>, <<"WASTE_DISTRIBUTION.MILK", "row:distribution_loss_dairy">>,
                    <<"WASTE_DISTRIBUTION.SEAFOOD", "row:distribution_loss_seafood">>, <<"WASTE_DISTRIBUTION.SEAWEED", "row:distribution_loss_seafood">>}
GlobalDistribution == {<<"WASTE_DISTRIBUTION.SUGAR", "0.09">>, <<"WASTE_DISTRIBUTION.CROPS", "4.96">>, <<"WASTE_DISTRIBUTION.MEAT", "0.8">>,
                       <<"WASTE_DISTRIBUTION.MILK", "2.12">>, <<"WASTE_DISTRIBUTION.SEAFOOD", "0.17">>, <<"WASTE_DISTRIBUTION.SEAWEED", "0.17">>}
FeedBioCaps == {<<"MAX_SEAWEED_AS_PERCENT_KCALS_FEED", "10">>, <<"MAX_CELLULOSIC_SUGAR_AS_PERCENT_KCALS_FEED", "10">>,
                <<"MAX_METHANE_SCP_AS_PERCENT_KCALS_FEED", "43">>, <<"MAX_SEAWEED_AS_PERCENT_KCALS_BIOFUEL", "10">>,
                <<"MAX_CELLULOSIC_SUGAR_AS_PERCENT_KCALS_BIOFUEL", "100">>, <<"MAX_METHANE_SCP_AS_PERCENT_KCALS_BIOFUEL", "100">>}
Doc == [
  shutoff |-> [immediate |-> {<<"DELAY.FEED_SHUTOFF_MONTHS", "0">>, <<"DELAY.BIOFUEL_SHUTOFF_MONTHS", "0">>, <<"MINIMUM_PERCENT_FED_BEFORE_NONHUMAN_CONSUMPTION_ALLOWED", "100">>},
               one_month_delayed_shutoff |-> {<<"DELAY.FEED_SHUTOFF_MONTHS", "1">>, <<"DELAY.BIOFUEL_SHUTOFF_MONTHS", "1">>, <<"MINIMUM_PERCENT_FED_BEFORE_NONHUMAN_CONSUMPTION_ALLOWED", "100">>},
               short_delayed_shutoff |-> {<<"DELAY.FEED_SHUTOFF_MONTHS", "2">>, <<"DELAY.BIOFUEL_SHUTOFF_MONTHS", "1">>, <<"MINIMUM_PERCENT_FED_BEFORE_NONHUMAN_CONSUMPTION_ALLOWED", "100">>},
               long_delayed_shutoff |-> {<<"DELAY.FEED_SHUTOFF_MONTHS", "3">>, <<"DELAY.BIOFUEL_SHUTOFF_MONTHS", "2">>, <<"MINIMUM_PERCENT_FED_BEFORE_NONHUMAN_CONSUMPTION_ALLOWED", "100">>},
               continued |-> {<<"DELAY.FEED_SHUTOFF_MONTHS", "N">>, <<"DELAY.BIOFUEL_SHUTOFF_MONTHS", "N">>, <<"MINIMUM_PERCENT_FED_BEFORE_NONHUMAN_CONSUMPTION_ALLOWED", "100">>},
               continued_after_10_percent_fed |-> {<<"DELAY.FEED_SHUTOFF_MONTHS", "N">>, <<"DELAY.BIOFUEL_SHUTOFF_MONTHS", "N">>, <<"MINIMUM_PERCENT_FED_BEFORE_NONHUMAN_CONSUMPTION_ALLOWED", "10">>},
               long_delayed_shutoff_after_10_percent_fed |-> {<<"DELAY.FEED_SHUTOFF_MONTHS", "12">>, <<"DELAY.BIOFUEL_SHUTOFF_MONTHS", "6">>, <<"MINIMUM_PERCENT_FED_BEFORE_NONHUMAN_CONSUMPTION_ALLOWED", "10">>}],
  stored_food |-> [zero |-> {<<"ADD_STORED_FOOD", "False">>, <<"PERCENT_STORED_FOOD_TO_USE", "0">>}, baseline |-> {<<"ADD_STORED_FOOD", "True">>, <<"PERCENT_STORED_FOOD_TO_USE", "100">>}],
  ratio_stocks_untouched |-> [zero |-> {<<"RATIO_STOCKS_UNTOUCHED", "0">>, <<"STORE_FOOD_BETWEEN_YEARS", "True">>},
                              no_stored_between_years |-> {<<"RATIO_STOCKS_UNTOUCHED", "0">>, <<"STORE_FOOD_BETWEEN_YEARS", "False">>},
                              baseline |-> {<<"RATIO_STOCKS_UNTOUCHED", "1">>, <<"STORE_FOOD_BETWEEN_YEARS", "True">>},
                              baseline_no_stored_between_years |-> {<<"RATIO_STOCKS_UNTOUCHED", "1">>, <<"STORE_FOOD_BETWEEN_YEARS", "False">>}],
  cull |-> [do_eat_culled |-> {<<"ADD_MEAT", "True">>, <<"ADD_MILK", "True">>}, dont_eat_culled |-> {<<"ADD_MEAT", "False">>, <<"ADD_MILK", "False">>}],
  protein |-> [not_required |-> {<<"INCLUDE_PROTEIN", "False">>}], fat |-> [not_required |-> {<<"INCLUDE_FAT", "False">>}],
  meat_strategy |-> [reduce_breeding |-> {<<"BREEDING_STRATEGY", "reduced">>}, baseline_breeding |-> {<<"BREEDING_STRATEGY", "baseline">>},
                     feed_only_ruminants |-> {<<"BREEDING_STRATEGY", "feed_only_ruminants">>}],
  \* ("rowlist:<prefix>": the list of the row's columns <prefix>1 .. <prefix>12, as they are)
  seasonality |-> [country |-> {<<"SEASONALITY", "rowlist:seasonality_m">>}],
  nutrition |-> [baseline |-> {<<"NUTRITION.KCALS_DAILY", "2100">>}, catastrophe |-> {<<"NUTRITION.KCALS_DAILY", "2100">>}],
  \* (the caps on feed and biofuel apply under both values)
  intake_constraints |-> [enabled |-> {<<"MAX_SEAWEED_AS_PERCENT_KCALS_HUMANS", "10">>, <<"MAX_CELLULOSIC_SUGAR_AS_PERCENT_KCALS_HUMANS", "40">>,
                                       <<"MAX_METHANE_SCP_AS_PERCENT_KCALS_HUMANS", "50">>} \cup FeedBioCaps,
                          disabled_for_humans |-> {<<"MAX_SEAWEED_AS_PERCENT_KCALS_HUMANS", "100">>, <<"MAX_CELLULOSIC_SUGAR_AS_PERCENT_KCALS_HUMANS", "100">>,
                                                   <<"MAX_METHANE_SCP_AS_PERCENT_KCALS_HUMANS", "100">>} \cup FeedBioCaps],
  scenario |-> [no_resilient_foods |-> {<<"ADD_SEAWEED", "False">>, <<"ADD_METHANE_SCP", "False">>, <<"ADD_CELLULOSIC_SUGAR", "False">>, <<"ADD_GREENHOUSES", "False">>, <<"OG_USE_BETTER_ROTATION", "False">>},
                all_resilient_foods |-> {<<"ADD_SEAWEED", "True">>, <<"ADD_METHANE_SCP", "True">>, <<"ADD_CELLULOSIC_SUGAR", "True">>},
                all_resilient_foods_and_more_area |-> {<<"ADD_SEAWEED", "True">>, <<"ADD_METHANE_SCP", "True">>, <<"ADD_CELLULOSIC_SUGAR", "True">>, <<"OG_USE_BETTER_ROTATION", "True">>,
                                                       \* (cropland grows to 72/39 of today's within three years)
                                                       <<"RATIO_INCREASED_CROP_AREA", "1.8461538461538463">>, <<"NUMBER_YEARS_TAKES_TO_REACH_INCREASED_AREA", "3">>},
                seaweed |-> {<<"ADD_SEAWEED", "True">>, <<"ADD_METHANE_SCP", "False">>, <<"ADD_CELLULOSIC_SUGAR", "False">>, <<"ADD_GREENHOUSES", "False">>, <<"OG_USE_BETTER_ROTATION", "False">>},
                methane_scp |-> {<<"ADD_SEAWEED", "False">>, <<"ADD_METHANE_SCP", "True">>, <<"ADD_CELLULOSIC_SUGAR", "False">>, <<"ADD_GREENHOUSES", "False">>, <<"OG_USE_BETTER_ROTATION", "False">>},
                cellulosic_sugar |-> {<<"ADD_SEAWEED", "False">>, <<"ADD_METHANE_SCP", "False">>, <<"ADD_CELLULOSIC_SUGAR", "True">>, <<"ADD_GREENHOUSES", "False">>, <<"OG_USE_BETTER_ROTATION", "False">>},
                industrial_foods |-> {<<"ADD_SEAWEED", "False">>, <<"ADD_METHANE_SCP", "True">>, <<"ADD_CELLULOSIC_SUGAR", "True">>, <<"ADD_GREENHOUSES", "False">>, <<"OG_USE_BETTER_ROTATION", "False">>},
                relocated_crops |-> {<<"ADD_SEAWEED", "False">>, <<"ADD_METHANE_SCP", "False">>, <<"ADD_CELLULOSIC_SUGAR", "False">>, <<"ADD_GREENHOUSES", "False">>, <<"OG_USE_BETTER_ROTATION", "True">>,
                                     <<"RATIO_INCREASED_CROP_AREA", "1">>},
                greenhouse |-> {<<"ADD_SEAWEED", "False">>, <<"ADD_METHANE_SCP", "False">>, <<"ADD_CELLULOSIC_SUGAR", "False">>, <<"ADD_GREENHOUSES", "True">>, <<"OG_USE_BETTER_ROTATION", "False">>}],
  \* ("row:<column>": one hundred times that column of the country's data row)
  waste |-> [zero |-> {<<"WASTE_RETAIL", "0">>} \cup {<<"WASTE_DISTRIBUTION." \o g, "0">> : g \in {"SUGAR", "CROPS", "MEAT", "MILK", "SEAFOOD", "SEAWEED"}},
             tripled_prices_in_country |-> {<<"WASTE_RETAIL", "row:retail_waste_price_triple">>} \cup RowDistribution,
             doubled_prices_in_country |-> {<<"WASTE_RETAIL", "row:retail_waste_price_double">>} \cup RowDistribution,
             baseline_in_country |-> {<<"WASTE_RETAIL", "row:retail_waste_baseline">>} \cup RowDistribution,
             tripled_prices_globally |-> {<<"WASTE_RETAIL", "6.08">>} \cup GlobalDistribution,
             doubled_prices_globally |-> {<<"WASTE_RETAIL", "10.6">>} \cup GlobalDistribution,
             baseline_globally |-> {<<"WASTE_RETAIL", "24.98">>} \cup GlobalDistribution],
  \* ("row1p:<column>": one plus that column of the country's data row - the estimates are stored as changes relative to today)
  crop_disruption |-> [zero |-> {<<"ADD_OUTDOOR_GROWING", "True">>, <<"RATIO_CROPS_YEAR1", "1">>, <<"RATIO_CROPS_YEAR10", "1">>},
                       all_crops_die_instantly |-> {<<"ADD_OUTDOOR_GROWING", "False">>, <<"RATIO_CROPS_YEAR1", "0">>},
                       country_nuclear_winter |-> {<<"ADD_OUTDOOR_GROWING", "True">>} \cup
                                                  {<<"RATIO_CROPS_YEAR" \o ToString(i), "row1p:crop_reduction_year" \o ToString(i)>> : i \in 1..10}],
  grasses |-> [baseline |-> {<<"RATIO_GRASSES_YEAR1", "1">>, <<"RATIO_GRASSES_YEAR10", "1">>}, all_crops_die_instantly |-> {<<"RATIO_GRASSES_YEAR1", "0">>, <<"RATIO_GRASSES_YEAR10", "0">>},
               country_nuclear_winter |-> {<<"RATIO_GRASSES_YEAR" \o ToString(i), "row1p:grasses_reduction_year" \o ToString(i)>> : i \in 1..10}] ]

\* numeric overrides: option key -> the constant it changes ("<species>_head" keys are generated from the species list)
Species == {"chicken", "rabbit", "duck", "goose", "turkey", "other_rodents", "pig", "meat_goat", "meat_sheep", "camelids", "meat_cattle",
            "meat_camel", "meat_buffalo", "mule", "horse", "asses", "milk_sheep", "milk_cattle", "milk_goat", "milk_camel", "milk_buffalo"}
OverrideKeys == {"kg_meat_per_large_animal", "MINIMUM_PERCENT_FED_BEFORE_NONHUMAN_CONSUMPTION_ALLOWED", "RATIO_STOCKS_UNTOUCHED",
                 "CROP_PRODUCTION_MULTIPLIER", "GRASSES_PRODUCTION_MULTIPLIER"} \cup {s \o "_head" : s \in Species}

\* the constants an override changes (and nothing else); a head-count override must also reach the stock table
OverrideTarget(k) ==
  IF k = "CROP_PRODUCTION_MULTIPLIER" THEN {"RATIO_CROPS_YEAR" \o ToString(i) : i \in 1..11}
  ELSE IF k = "GRASSES_PRODUCTION_MULTIPLIER" THEN {"RATIO_GRASSES_YEAR" \o ToString(i) : i \in 1..11}
  ELSE IF k \in {"kg_meat_per_large_animal", "MINIMUM_PERCENT_FED_BEFORE_NONHUMAN_CONSUMPTION_ALLOWED", "RATIO_STOCKS_UNTOUCHED"} THEN {k}
  ELSE {k \o "_start"}

\* dispatch cases: a valid option dictionary with one family's value replaced by each supported value, by an unknown
\* value, or removed
DispatchCases == {<<f, v>> : f \in OptionFamilies, v \in {"__unknown__", "__missing__"}} \cup
                 UNION {{<<f, v>> : v \in Values(f)} : f \in OptionFamilies}
DispatchAccepts(f, v, sc) == v \in Values(f) /\ NeedsScale(Dispatch[f][v]) \in {"any", sc}

\* PatchKnownBad: (country, option pattern) pairs the maintainers rewrite to `shutoff: immediate` before dispatching
\* (alter_scenario_if_known_to_fail). The rewrite happens on a copy: the caller's dictionary keeps the requested value, and the
\* next country dispatched with the same dictionary gets the requested shut-off.
KnownBad == {
  [cc |-> "SLV", opts |-> [cull |-> "do_eat_culled", scenario |-> "all_resilient_foods", shutoff |-> "continued"]],
  [cc |-> "SLV", opts |-> [cull |-> "do_eat_culled", scenario |-> "seaweed", shutoff |-> "short_delayed_shutoff"]],
  [cc |-> "ALB", opts |-> [cull |-> "do_eat_culled", scenario |-> "seaweed", shutoff |-> "long_delayed_shutoff"]],
  [cc |-> "ECU", opts |-> [cull |-> "do_eat_culled", scenario |-> "greenhouse", shutoff |-> "long_delayed_shutoff", crop_disruption |-> "zero",
                           meat_strategy |-> "feed_only_ruminants", ratio_stocks_untouched |-> "zero"]] }

\* ------------------------------------------------------------------ machine
VARIABLES scale,     \* "unset" | "global" | "country"
          flags,     \* families whose setter has been applied
          err,       \* a setter was refused
          hist       \* setters applied so far (at most 2)
ovars == <<scale, flags, err, hist>>

OInit == scale = "unset" /\ flags = {} /\ err = FALSE /\ hist = <<>>
ChooseScale(sc) == /\ scale = "unset" /\ scale' = sc /\ UNCHANGED <<flags, err, hist>>

\* a setter is refused (AssertionError, nothing written) when its family is already set or the scale does not fit
Accepts(s) == Family(s) \notin flags /\ NeedsScale(s) \in {"any", scale}
Apply(s) ==
  /\ scale # "unset" /\ ~err /\ Len(hist) < 2
  /\ Emit => PrintT(ToJson([k |-> "Setter", scale |-> scale, before |-> hist, s |-> s, accept |-> Accepts(s),
                            family |-> Family(s)]))
  /\ IF Accepts(s) THEN flags' = flags \cup {Family(s)} /\ err' = FALSE
                   ELSE flags' = flags /\ err' = TRUE
  /\ hist' = Append(hist, s)
  /\ UNCHANGED scale

ONext == (\E sc \in {"global", "country"} : ChooseScale(sc)) \/ (\E s \in Setters : Apply(s))
OSpec == OInit /\ [][ONext]_ovars

\* ExactlyOnce: a family is never applied twice - the second setter of a family is refused and leaves the flags alone
ExactlyOnce == \A i, j \in 1..Len(hist) : (i < j /\ Family(hist[i]) = Family(hist[j])) => err
FlagsAreHistory == ~err => flags = {Family(hist[i]) : i \in 1..Len(hist)}
TablesConsistent ==
  /\ \A f \in OptionFamilies : \A v \in Values(f) : Dispatch[f][v] \in Setters /\ Family(Dispatch[f][v]) = f
  /\ \A s \in Setters : Family(s) \in DOMAIN Owns
  /\ \A f \in DOMAIN Doc : \A v \in DOMAIN Doc[f] : v \in Values(f)
ASSUME TablesConsistent
ASSUME Emit => PrintT(ToJson([k |-> "Tables", setters |-> SetterTab, owns |-> Owns, dispatch |-> Dispatch, doc |-> Doc,
                              overrides |-> [k \in OverrideKeys |-> OverrideTarget(k)], species |-> Species, knownbad |-> KnownBad,
                              cases |-> {[f |-> c[1], v |-> c[2], global |-> DispatchAccepts(c[1], c[2], "global"),
                                          country |-> DispatchAccepts(c[1], c[2], "country")] : c \in DispatchCases}]))
=============================================================================
