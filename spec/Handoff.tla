------------------------------ MODULE Handoff ------------------------------
(***************************************************************************)
(* Hand-offs between the three optimisation rounds                         *)
(* (src/optimizer/parameters.py), stated as relations between the inputs   *)
(* and the outputs of each hand-off (C18):                                 *)
(*                                                                         *)
(*  FillMin   minimum human consumption passed to the feed-maximising      *)
(*            round: each month the nine foods are taken in the documented *)
(*            priority order up to cap = KD * Min(pf1, T) / 100            *)
(*  Retime    re-timing of the feed round's meat so that no month falls    *)
(*            below the no-feed round                                      *)
(*  Bump      final feed / biofuel adjustment                              *)
(*                                                                         *)
(* Over Arith.tla: MC_Handoff enumerates small integer inputs which are    *)
(* run through the real helpers, and Trace_Handoff validates those and the *)
(* hand-offs recorded in every corpus run.                                 *)
(***************************************************************************)
EXTENDS Arith

Priority == <<"fish", "meat", "dairy", "greenhouse", "outdoor_crops", "stored_food", "methane_scp",
              "cellulosic_sugar", "seaweed">>

RECURSIVE SumTo(_, _)
SumTo(q, k) == IF k = 0 THEN Zero ELSE Add(q[k], SumTo(q, k - 1))
Total(q) == SumTo(q, Len(q))

(* one month: avail and out are sequences of 9 numbers in Priority order; cap100 = KD * Min(pf1, T), i.e. 100 * cap *)
FillMonthOK(avail, out, kd, pf1, T) ==
  LET cap100 == Mul(kd, Min(pf1, T))
      tot == Total(out)
  IN
  /\ Ck("FillWithinAvail", \A f \in 1..9 : NonNeg(out[f]) /\ Le(out[f], avail[f]))
  /\ Ck("FillSum", Eq(Mul(I(100), tot), Min(cap100, Mul(I(100), Total(avail)))))
  \* a food is used only when every food before it is exhausted
  /\ Ck("FillPriority", \A f \in 1..8 : SLt(out[f], avail[f]) => \A k \in (f + 1)..9 : Eq(out[k], Zero))

(* Retime: m1, m2 monthly meat of the no-feed and the feed round; r the re-timed series (same length) *)
RetimeOK(m1, m2, r) ==
  /\ Ck("RetimeTotal", Eq(Total(r), Total(m2)))
  /\ Ck("RetimeNonNeg", \A i \in 1..Len(r) : NonNeg(r[i]))
  /\ Ck("RetimeAboveRound1", \A i \in 1..Len(r) : Le(m1[i], r[i]))
\* ... and the series the feed round is actually given (whichever path produced it) is at or above the one the no-feed round was given
GivenOK(m1, g) == Ck("RetimeAboveRound1", Len(m1) = Len(g) /\ \A i \in 1..Len(g) : Le(m1[i], g[i]))
\* when the feed round yields less meat in total, the round is skipped instead
\* what the next round is told: the running total it may eat from is the cumulative sum of the monthly series it is given
RECURSIVE Prefix(_, _)
Prefix(q, k) == IF k = 0 THEN Zero ELSE Add(q[k], Prefix(q, k - 1))
RunningOK(meat, running) == Ck("RunningTotalIsCumulative", Len(meat) = Len(running) /\ \A i \in 1..Len(meat) : Eq(running[i], Prefix(meat, i)))

RetimeSkipOK(m1, m2) == Ck("RetimeSkipOnlyWhenLess", SLt(Total(m2), Total(m1)) \/ ~Le(Total(m1), Total(m2)))

(* what the final round is charged is what the adjustment returned: nothing is taken off (or added) on the way *)
ChargedOK(b2, f2, cb, cf) == Ck("AdjustedIsCharged", Len(b2) = Len(cb) /\ Len(f2) = Len(cf) /\
                                 \A i \in 1..Len(b2) : Eq(cb[i], b2[i]) /\ Eq(cf[i], f2[i]))

(* the harvest is an input of the run: every round is given the same monthly series *)
HarvestOK(c1, c) == Ck("HarvestSameEveryRound", Len(c1) = Len(c) /\ \A i \in 1..Len(c) : Eq(c1[i], c[i]))

(* Bump: biofuel b, feed f, demand ceilings maxB, maxF (monthly series); b2, f2 the adjusted series; dom: b <= maxB and f <= maxF held *)
BumpOK(b, f, maxB, maxF, b2, f2, dom) ==
  /\ Ck("BumpNeverLowers", \A i \in 1..Len(b) : Le(b[i], b2[i]) /\ Le(f[i], f2[i]))
  /\ Ck("BumpWithinDemand", ~dom \/ \A i \in 1..Len(b) : /\ (SLt(b[i], b2[i]) => Le(b2[i], maxB[i]))
                                                /\ (SLt(f[i], f2[i]) => Le(f2[i], maxF[i])))
=============================================================================
