---------------------------- MODULE Trace_Handoff ----------------------------
(* Code -> spec for C18: input/output pairs of the hand-off helpers (on TLC-generated inputs and from corpus runs). *)
EXTENDS Handoff

VARIABLES tid, l
Ev(t) == Traces[t].ev
Init == tid \in 1..NT /\ l = 1
Step ==
  /\ l <= Len(Ev(tid))
  /\ Mark(tid, l)
  /\ LET e == Ev(tid)[l] IN
       CASE e.ev = "FillMonth" -> FillMonthOK(e.avail, e.out, e.kd, e.pf1, e.T)
         [] e.ev = "Retime" -> RetimeOK(e.m1, e.m2, e.r)
         [] e.ev = "RetimeSkip" -> RetimeSkipOK(e.m1, e.m2)
         [] e.ev = "MeatGiven" -> GivenOK(e.m1, e.g)
         [] e.ev = "Charged" -> ChargedOK(e.b2, e.f2, e.cb, e.cf)
         [] e.ev = "Harvest" -> HarvestOK(e.c1, e.c)
         [] e.ev = "Running" -> RunningOK(e.meat, e.running)
         [] e.ev = "Bump" -> BumpOK(e.b, e.f, e.maxB, e.maxF, e.b2, e.f2, e.dom)
  /\ l' = l + 1 /\ UNCHANGED tid
Done == l = Len(Ev(tid)) + 1 /\ MarkDone(tid) /\ l' = l + 1 /\ UNCHANGED tid
Spec == Init /\ [][Step \/ Done]_<<tid, l>>
=============================================================================
