------------------------------- MODULE Rat -------------------------------
(***************************************************************************)
(* Exact small rationals <<n, d>> (d > 0, lowest terms) for the exhaustive *)
(* configurations and for spec-generated inputs that are replayed into the *)
(* implementation: TLC is the oracle, the replayer only divides n by d.    *)
(* Magnitudes must stay below 2^31 (TLC integers are 32-bit).              *)
(***************************************************************************)
EXTENDS Integers

RECURSIVE Gcd(_, _)
Gcd(a, b) == IF b = 0 THEN a ELSE Gcd(b, a % b)
AbsI(x) == IF x < 0 THEN -x ELSE x

R(n, d) == LET s == IF d < 0 THEN -1 ELSE 1
               g == Gcd(AbsI(n), AbsI(d))
           IN IF n = 0 THEN <<0, 1>> ELSE <<(s * n) \div g, (s * d) \div g>>
RInt(n) == <<n, 1>>
RZero == <<0, 1>>
ROne == <<1, 1>>
RHalf == <<1, 2>>
RAdd(a, b) == R(a[1] * b[2] + b[1] * a[2], a[2] * b[2])
RSub(a, b) == R(a[1] * b[2] - b[1] * a[2], a[2] * b[2])
RMul(a, b) == R(a[1] * b[1], a[2] * b[2])
RDiv(a, b) == R(a[1] * b[2], a[2] * b[1])
RNeg(a) == <<-a[1], a[2]>>
RLe(a, b) == a[1] * b[2] <= b[1] * a[2]
RLt(a, b) == a[1] * b[2] < b[1] * a[2]
REq(a, b) == a[1] * b[2] = b[1] * a[2]
RMax(a, b) == IF RLe(a, b) THEN b ELSE a
RMin(a, b) == IF RLe(a, b) THEN a ELSE b
RAbs(a) == <<AbsI(a[1]), a[2]>>
\* nearest integers to a (both when a is exactly half-way)
RFloor(a) == IF a[1] >= 0 THEN a[1] \div a[2] ELSE -((-a[1] + a[2] - 1) \div a[2])
RNearest(a) == {k \in {RFloor(a), RFloor(a) + 1} : RLe(RAbs(RSub(RInt(k), a)), RHalf)}
=============================================================================
