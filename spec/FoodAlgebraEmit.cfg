SPECIFICATION Spec
CONSTANTS
  MaxDepth = 2
  Emit = TRUE
CHECK_DEADLOCK FALSE
