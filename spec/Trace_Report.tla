---------------------------- MODULE Trace_Report ----------------------------
(* Code -> spec for C04: one trace per interpreted round of every recorded run. *)
EXTENDS Report
VARIABLES tid, l
Ev(t) == Traces[t].ev
Init == tid \in 1..NT /\ l = 1 /\ PInit
Step ==
  /\ l <= Len(Ev(tid))
  /\ Mark(tid, l)
  /\ LET e == Ev(tid)[l] IN
       CASE e.ev = "Begin" -> BeginR(e)
         [] e.ev = "Month" -> MonthR(e)
         [] e.ev = "End" -> EndR
  /\ l' = l + 1 /\ UNCHANGED tid
Fin == /\ l = Len(Ev(tid)) + 1 /\ Mark(tid, l) /\ Ck("TraceEnded", ended)
       /\ MarkDone(tid) /\ l' = l + 1 /\ UNCHANGED <<tid, pvars>>
Spec == Init /\ [][Step \/ Fin]_<<tid, l, pvars>>
=============================================================================
