----------------------------- MODULE MC_Optimum -----------------------------
(***************************************************************************)
(* Batch form of Optimum.tla: the instance file lists every instance twice *)
(* - mode "achieve" with target = the optimum the real Optimizer reported  *)
(* (the end of the horizon must be reachable: the specification can do at  *)
(* least what the code claims, so the search below is not vacuous), and    *)
(* mode "better" with target = that optimum + 1 grid unit (the end must be *)
(* unreachable).  Reached instances are collected in a TLC register        *)
(* together with the witnessing allocation.  Run with -workers 1.          *)
(***************************************************************************)
EXTENDS Optimum
ASSUME TLCSet(1, {}) /\ TLCSet(2, <<>>) /\ TLCSet(3, [i \in 1..Len(Insts) |-> -1])
\* best score of every "animals" instance
MarkA == (mon = I.n /\ I.mode = "animals" /\ meatUse > TLCGet(3)[iid]) => TLCSet(3, [TLCGet(3) EXCEPT ![iid] = meatUse])
Mark == MarkA /\ ((mon = I.n /\ I.mode # "animals") => /\ (iid \in TLCGet(1) \/ TLCSet(2, Append(TLCGet(2), [id |-> I.id, mode |-> I.mode, alloc |-> hist])))
                       /\ TLCSet(1, TLCGet(1) \cup {iid}))
ReportReached == PrintT(ToJson([k |-> "Reached", items |-> TLCGet(2), best |-> [i \in 1..Len(Insts) |-> [id |-> Insts[i].id, mode |-> Insts[i].mode, score |-> TLCGet(3)[i]]]]))
=============================================================================
