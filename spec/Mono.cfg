SPECIFICATION Spec
CONSTANT Exact = FALSE
CHECK_DEADLOCK FALSE
POSTCONDITION Report
