------------------------------ MODULE TraceLib ------------------------------
(***************************************************************************)
(* Batched trace validation.  IOEnv.TRACE_FILE is an NDJSON file with one  *)
(* trace per line: {"tid": k, "hdr": {...}, "ev": [ {...}, ... ]}.  A      *)
(* trace specification has variables tid (which trace) and l (position)    *)
(* and consumes one event per step.  Each conjunct of a trace action is    *)
(* wrapped in TCk(name, cond): a false conjunct is *noted* (trace id,      *)
(* position, clause name) and the trace continues from the logged values,  *)
(* so every event of every trace is examined and verdicts are total.       *)
(* A trace is a behaviour of the specification iff nothing was noted for   *)
(* it and it reached its end (register DONE).  Run with -workers 1.        *)
(***************************************************************************)
EXTENDS Integers, Sequences, FiniteSets, TLC, TLCExt, Json, IOUtils

Traces == ndJsonDeserialize(IOEnv.TRACE_FILE)
NT == Len(Traces)

FAILS == 1   \* sequence of <<tid, l, clause>> (first 500)
DONE == 2    \* set of tids whose every event was consumed
NFAIL == 3   \* number of noted failures
CUR == 4     \* <<tid, l>> of the event being evaluated
NEV == 5     \* number of events consumed
ASSUME TLCSet(FAILS, <<>>) /\ TLCSet(DONE, {}) /\ TLCSet(NFAIL, 0) /\ TLCSet(CUR, <<0, 0>>) /\ TLCSet(NEV, 0)

Mark(t, l) == TLCSet(CUR, <<t, l>>) /\ TLCSet(NEV, TLCGet(NEV) + 1)
Note(name) == /\ TLCSet(NFAIL, TLCGet(NFAIL) + 1)
              /\ IF Len(TLCGet(FAILS)) < 500
                 THEN TLCSet(FAILS, Append(TLCGet(FAILS), <<TLCGet(CUR)[1], TLCGet(CUR)[2], name>>))
                 ELSE TRUE
\* IF (not \/): inside an action TLC would explore both disjuncts as alternative steps
TCk(name, cond) == IF cond THEN TRUE ELSE Note(name)
MarkDone(t) == TLCSet(DONE, TLCGet(DONE) \cup {t})

Report == /\ PrintT(<<"VERIF_FAILS", TLCGet(NFAIL), TLCGet(FAILS)>>)
          /\ PrintT(<<"VERIF_DONE", Cardinality(TLCGet(DONE)), NT, TLCGet(NEV)>>)
=============================================================================
