SPECIFICATION Spec
CONSTANT Depth = 2
CHECK_DEADLOCK FALSE
