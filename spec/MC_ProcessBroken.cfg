SPECIFICATION PSpec
CONSTANTS
  RunTypes = {"r_arg_base", "r_usa_nw", "r_dji_res", "r_wor", "r_bad"}
  Failing = {"r_bad"}
  MaxLen = 3
  ReadsBeforeSet = TRUE
  Emit = FALSE
  Countries <- C4
  Pop <- PopTab
  RatioGrid <- Grid
  RatioAssignments <- FewAssignments
CHECK_DEADLOCK FALSE
INVARIANT HistoryIndependent
INVARIANT ResultDependsOnlyOnRun
