SPECIFICATION BSpec
CONSTANTS
  Exact = TRUE
  Universe <- Core
  EmitAvg = TRUE
CHECK_DEADLOCK FALSE
INVARIANT NoStaleRead
INVARIANT Confluent
