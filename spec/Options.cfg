SPECIFICATION OSpec
CONSTANT Emit = FALSE
CHECK_DEADLOCK FALSE
INVARIANT ExactlyOnce
INVARIANT FlagsAreHistory
