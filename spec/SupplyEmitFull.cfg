CONSTANT Emit = "full"
