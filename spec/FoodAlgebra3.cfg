SPECIFICATION Spec
CONSTANTS
  MaxDepth = 3
  Emit = FALSE
CHECK_DEADLOCK FALSE
INVARIANT AllWellFormed
INVARIANT RatioSymmetric
