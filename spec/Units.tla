------------------------------- MODULE Units -------------------------------
(***************************************************************************)
(* Unit systems of food quantities (src/food_system/unit_conversions.py).  *)
(*                                                                         *)
(* Every supported unit is described by the factor that takes a quantity   *)
(* in the base unit of its nutrient (billion kcals; thousand tons of fat;  *)
(* thousand tons of protein) to that unit.  The factor is a monomial       *)
(*        c * 10^e10 * POP^pop * KD^kd * FD^fd * PD^pd                     *)
(* in the population and the daily requirement per person of calories, fat *)
(* and protein (a month has 30 days), with c a small rational.  The table  *)
(* below is written from the definitions of the units, not from the code:  *)
(*   people fed (billions) = energy / (30 * KD) ... fat / (30 * FD)        *)
(*   percent fed           = 100 * people fed * 10^9 / POP                 *)
(*   per person per day    = quantity * 10^9 / (30 * POP)                  *)
(*   dry caloric tons      = kcal / (4000 kcal per kg)                     *)
(*   effective kcals       = fraction of the fat (protein) need met * KD   *)
(* Because conversions are ratios of monomials, the laws below are checked *)
(* on exponent vectors and therefore hold for every positive parameter     *)
(* setting; TLC enumerates all pairs and triples of names.  The table is   *)
(* exported as JSON and evaluated with exact fractions against the real    *)
(* get_conversion / in_units at many parameter settings.                   *)
(***************************************************************************)
EXTENDS Integers, Sequences, FiniteSets, TLC, Json, Rat

Suffixes == {"", " each month", " per month"}

Mono(c, e10, pop, kd, fd, pd) == [c |-> c, e10 |-> e10, pop |-> pop, kd |-> kd, fd |-> fd, pd |-> pd]
MOne == Mono(ROne, 0, 0, 0, 0, 0)
\* normalise the coefficient so that it carries no factor of ten (keeps equal monomials syntactically equal)
RECURSIVE Norm(_)
Norm(m) == IF m.c[1] # 0 /\ m.c[1] % 10 = 0 THEN Norm([m EXCEPT !.c = R(m.c[1] \div 10, m.c[2]), !.e10 = m.e10 + 1])
           ELSE IF m.c[2] % 10 = 0 THEN Norm([m EXCEPT !.c = R(m.c[1], m.c[2] \div 10), !.e10 = m.e10 - 1])
           ELSE m
MMul(x, y) == Norm(Mono(RMul(x.c, y.c), x.e10 + y.e10, x.pop + y.pop, x.kd + y.kd, x.fd + y.fd, x.pd + y.pd))
MDiv(x, y) == Norm(Mono(RDiv(x.c, y.c), x.e10 - y.e10, x.pop - y.pop, x.kd - y.kd, x.fd - y.fd, x.pd - y.pd))

\* -------------------------------------------------------------- the tables
KcalBase == [n \in {"billion kcals", "billion people fed", "percent people fed", "million dry caloric tons",
                    "kcals per person per day"} |->
  CASE n = "billion kcals" -> MOne
    [] n = "billion people fed" -> Mono(R(1, 30), 0, 0, -1, 0, 0)
    [] n = "percent people fed" -> Mono(R(100, 30), 9, -1, -1, 0, 0)
    [] n = "million dry caloric tons" -> Mono(R(1, 4), -3, 0, 0, 0, 0)
    [] n = "kcals per person per day" -> Mono(R(1, 30), 9, -1, 0, 0, 0)]

\* fat and protein have the same table, with FD resp. PD as the requirement
MassBase(isFat) == [n \in {"thousand tons", "million tons", "billion people fed", "percent people fed",
                            "effective kcals per person per day", "grams per person per day"} |->
  LET f == IF isFat THEN -1 ELSE 0  p == IF isFat THEN 0 ELSE -1 IN
  CASE n = "thousand tons" -> MOne
    [] n = "million tons" -> Mono(ROne, -3, 0, 0, 0, 0)
    [] n = "billion people fed" -> Mono(R(1, 30), 0, 0, 0, f, p)
    [] n = "percent people fed" -> Mono(R(100, 30), 9, -1, 0, f, p)
    [] n = "effective kcals per person per day" -> Mono(R(1, 30), 9, -1, 1, f, p)
    [] n = "grams per person per day" -> Mono(R(1, 30), 9, -1, 0, 0, 0)]

Names(tab) == {<<b, s>> : b \in DOMAIN tab, s \in Suffixes}
Factor(tab, u) == Norm(tab[u[1]])          \* the suffix does not change the factor
Conv(tab, u, v) == MDiv(Factor(tab, v), Factor(tab, u))    \* multiply a value in u by this to get it in v

Tables == <<KcalBase, MassBase(TRUE), MassBase(FALSE)>>

\* ------------------------------------------------------------------ the laws
RoundTrip == \A i \in 1..3 : \A u, v \in Names(Tables[i]) :
               MMul(Conv(Tables[i], u, v), Conv(Tables[i], v, u)) = MOne
ViaEqualsDirect == \A i \in 1..3 : \A u, v, w \in Names(Tables[i]) :
               MMul(Conv(Tables[i], u, v), Conv(Tables[i], v, w)) = Conv(Tables[i], u, w)

\* in_units: the target is named without suffix; the result keeps the source's form (total / per month / each month)
InUnitsLabel(u, base) == <<base, u[2]>>
FormPreserved == \A i \in 1..3 : \A u \in Names(Tables[i]) : \A b \in DOMAIN Tables[i] :
               InUnitsLabel(u, b)[2] = u[2] /\ InUnitsLabel(u, b) \in Names(Tables[i])

\* anchors: the population's exact monthly requirement, 30 * KD * POP / 10^9 billion kcals (resp. 30 * FD * POP / 10^9
\* thousand tons), is 100 percent fed, KD kcals (FD grams) per person per day, and POP / 10^9 billion people fed
ReqK == Mono(RInt(30), -9, 1, 1, 0, 0)
ReqF == Mono(RInt(30), -9, 1, 0, 1, 0)
ReqP == Mono(RInt(30), -9, 1, 0, 0, 1)
Anchors ==
  /\ MMul(ReqK, KcalBase["percent people fed"]) = Norm(Mono(RInt(100), 0, 0, 0, 0, 0))
  /\ MMul(ReqK, KcalBase["kcals per person per day"]) = Mono(ROne, 0, 0, 1, 0, 0)
  /\ MMul(ReqK, KcalBase["billion people fed"]) = Mono(ROne, -9, 1, 0, 0, 0)
  /\ MMul(ReqF, MassBase(TRUE)["percent people fed"]) = Norm(Mono(RInt(100), 0, 0, 0, 0, 0))
  /\ MMul(ReqF, MassBase(TRUE)["grams per person per day"]) = Mono(ROne, 0, 0, 0, 1, 0)
  /\ MMul(ReqF, MassBase(TRUE)["billion people fed"]) = Mono(ROne, -9, 1, 0, 0, 0)
  /\ MMul(ReqF, MassBase(TRUE)["effective kcals per person per day"]) = Mono(ROne, 0, 0, 1, 0, 0)
  /\ MMul(ReqP, MassBase(FALSE)["percent people fed"]) = Norm(Mono(RInt(100), 0, 0, 0, 0, 0))
  /\ MMul(ReqP, MassBase(FALSE)["grams per person per day"]) = Mono(ROne, 0, 0, 0, 0, 1)
  /\ MMul(ReqP, MassBase(FALSE)["billion people fed"]) = Mono(ROne, -9, 1, 0, 0, 0)
  /\ MMul(ReqP, MassBase(FALSE)["effective kcals per person per day"]) = Mono(ROne, 0, 0, 1, 0, 0)

Counts == Cardinality(Names(KcalBase)) = 15 /\ Cardinality(Names(MassBase(TRUE))) = 18
          /\ Cardinality(Names(MassBase(FALSE))) = 18

ASSUME Counts
ASSUME Anchors
ASSUME RoundTrip
ASSUME ViaEqualsDirect
ASSUME FormPreserved
ASSUME PrintT(ToJson([table |-> [kcals |-> [n \in DOMAIN KcalBase |-> Norm(KcalBase[n])],
                                 fat |-> [n \in DOMAIN MassBase(TRUE) |-> Norm(MassBase(TRUE)[n])],
                                 protein |-> [n \in DOMAIN MassBase(FALSE) |-> Norm(MassBase(FALSE)[n])]],
                      req |-> [kcals |-> ReqK, fat |-> ReqF, protein |-> ReqP]]))
=============================================================================
