SPECIFICATION Spec
CONSTANTS
  Exact = TRUE
  NMonths = 3
CHECK_DEADLOCK FALSE
INVARIANT InvStocksNonNeg
