------------------------------- MODULE Rounds -------------------------------
(***************************************************************************)
(* The three-round protocol of ScenarioRunner.run_and_analyze_scenario.    *)
(*                                                                         *)
(*   Start      options applied; demand schedules, threshold T known        *)
(*   Round(1)   people-maximising round with no feed / biofuel  -> pf1     *)
(*   Round(2)   feed-maximising round with human consumption pinned at     *)
(*              min(pf1, T)                                                *)
(*   Skip("round2")    round 2 abandoned (meat lower with feed)            *)
(*   Skip("rounds12")  no feed-capable food or no demand: rounds 1, 2 not  *)
(*                     run at all                                          *)
(*   Round(3)   people-maximising round charged with round 2's feed  ->pf3 *)
(*   Validator  one built-in validation check                              *)
(*   Done / Failed                                                         *)
(*                                                                         *)
(* Quantities are in percent of the population's monthly requirement.      *)
(* C03: StarvingMeansNoFeed, NotBelowRound1, FloorAtT, WithinDemand,       *)
(*      ZeroAfterShutoff, DemandZeroAfterShutoff.                          *)
(* C16: LegalOrder, SolverOptimal, ValidatorsPass, Completed,              *)
(*      PercentFedFiniteNonNeg.                                            *)
(***************************************************************************)
EXTENDS Arith

VARIABLES
  phase,     \* "init" | "started" | "r1" | "r2" | "skip2" | "skip12" | "r3" | "done" | "failed"
  T, demF, demB, shutF, shutB,
  pf1, pf3, ran1,
  used3      \* per month: feed + biofuel drawn from human-edible food in the final round

rvars == <<phase, T, demF, demB, shutF, shutB, pf1, pf3, ran1, used3>>

Tenth == Dec(1000, 1)                 \* 0.1 percentage point: the model's documented grace
PctAbs == NOfScaled(100, 1)           \* comparisons of LP results in percent units: 1e-2 absolute ...
PctRel == NOfScaled(1000, 2)          \* ... + 1e-5 relative
PLe(x, y) == LeT(x, y, PctAbs, PctRel)

RECURSIVE SumParts(_, _)
SumParts(q, k) == IF k = 0 THEN Zero ELSE Add(q[k], SumParts(q, k - 1))
Tot(parts) == SumParts(parts, Len(parts))

RInit == /\ phase = "init" /\ T = Zero /\ demF = <<>> /\ demB = <<>> /\ shutF = 0 /\ shutB = 0
         /\ pf1 = Zero /\ pf3 = Zero /\ ran1 = FALSE /\ used3 = <<>>

(* e = [T, Tcfg, demF, demB, shutF, shutB, shutFcfg, shutBcfg] *)
Start(e) ==
  /\ phase = "init"
  /\ Ck("ThresholdInRange", Le(Zero, e.T) /\ Le(e.T, I(100)))
  \* the threshold in force is the configured one: an explicit override, else 10 for the "..._after_10_percent_fed"
  \* shut-off schedules, else 100
  /\ Ck("ThresholdAsConfigured", Eq(e.T, e.Tcfg))
  \* ... and so are the shut-off months of the documented schedule (0/0, 1/1, 2/1, 3/2, 12/6 or the whole horizon)
  /\ Ck("ShutoffAsConfigured", e.shutF = e.shutFcfg /\ e.shutB = e.shutBcfg)
  \* ... and the yearly feed and biofuel demand the schedules are built from: the scenario's override, else the country table's
  /\ Ck("DemandAsConfigured", Eq(e.feedYear, e.feedYearCfg) /\ Eq(e.bioYear, e.bioYearCfg))
  /\ Ck("DemandNonNeg", \A m \in 1..Len(e.demF) : NonNeg(e.demF[m]) /\ NonNeg(e.demB[m]))
  /\ Ck("DemandZeroAfterShutoff", /\ \A m \in 1..Len(e.demF) : m > e.shutF => Eq(e.demF[m], Zero)
                                  /\ \A m \in 1..Len(e.demB) : m > e.shutB => Eq(e.demB[m], Zero))
  /\ phase' = "started"
  /\ T' = e.T /\ demF' = e.demF /\ demB' = e.demB /\ shutF' = e.shutF /\ shutB' = e.shutB
  /\ UNCHANGED <<pf1, pf3, ran1, used3>>

(* e = [r, pf, statuses, feed, bio] with feed / bio sequences (one per month) of the five feed-capable foods' draws *)
Round(e) ==
  LET n == Len(e.feed)
      f == [m \in 1..n |-> Tot(e.feed[m])]
      b == [m \in 1..n |-> Tot(e.bio[m])]
  IN
  /\ Ck("LegalOrder", \/ e.r = 1 /\ phase = "started"
                      \/ e.r = 2 /\ phase = "r1"
                      \/ e.r = 3 /\ phase \in {"r2", "skip2", "skip12"})
  /\ Ck("SolverOptimal", e.statuses # <<>> /\ \A i \in 1..Len(e.statuses) : e.statuses[i] = 1)
  /\ Ck("WithinDemand", \A m \in 1..n : PLe(f[m], demF[m]) /\ PLe(b[m], demB[m]))
  /\ Ck("ZeroAfterShutoff", \A m \in 1..n : (m > shutF => PLe(f[m], Zero)) /\ (m > shutB => PLe(b[m], Zero)))
  /\ Ck("PercentFedFiniteNonNeg", e.r = 2 \/ NonNeg(e.pf))
  /\ phase' = IF e.r = 1 THEN "r1" ELSE IF e.r = 2 THEN "r2" ELSE "r3"
  /\ pf1' = IF e.r = 1 THEN e.pf ELSE pf1
  /\ ran1' = (ran1 \/ e.r = 1)
  /\ pf3' = IF e.r = 3 THEN e.pf ELSE pf3
  /\ used3' = IF e.r = 3 THEN [m \in 1..n |-> Add(f[m], b[m])] ELSE used3
  /\ UNCHANGED <<T, demF, demB, shutF, shutB>>

Skip(which) ==
  /\ Ck("LegalOrder", (which = "rounds12" /\ phase = "started") \/ (which = "round2" /\ phase = "r1"))
  /\ phase' = IF which = "rounds12" THEN "skip12" ELSE "skip2"
  /\ UNCHANGED <<T, demF, demB, shutF, shutB, pf1, pf3, ran1, used3>>

Validator(e) ==
  /\ Ck("ValidatorsPass", e.ok)
  /\ UNCHANGED rvars

Done ==
  LET starving == SLt(pf3, Sub(T, Tenth)) IN
  /\ Ck("Completed", phase = "r3")
  /\ Ck("StarvingMeansNoFeed", starving => \A m \in 1..Len(used3) : Le(used3[m], Tenth))
  /\ Ck("NotBelowRound1", (starving /\ ran1) => Le(Sub(pf1, Tenth), pf3))
  /\ Ck("FloorAtT", (ran1 /\ Le(T, pf1)) => Le(Sub(T, Tenth), pf3))
  /\ phase' = "done"
  /\ UNCHANGED <<T, demF, demB, shutF, shutB, pf1, pf3, ran1, used3>>

\* a run that fails is a legal behaviour of the protocol (explored by MC_Rounds) but, in a recorded trace, a violation of C16
Failed ==
  /\ Ck("Completed", Exact)
  /\ phase' = "failed"
  /\ UNCHANGED <<T, demF, demB, shutF, shutB, pf1, pf3, ran1, used3>>
=============================================================================
