CONSTANT Emit = "none"
