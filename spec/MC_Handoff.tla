----------------------------- MODULE MC_Handoff -----------------------------
(***************************************************************************)
(* Input generator for the hand-off helpers: all small integer inputs      *)
(* (TLC enumerates them as initial states and emits each as a JSON line).  *)
(* The real helpers are run on them and the input/output pairs validated   *)
(* by Trace_Handoff.                                                       *)
(***************************************************************************)
EXTENDS Integers, Sequences, TLC, Json

CONSTANT Depth   \* 1: quick grid, 2: thorough grid

VARIABLE c
V == IF Depth = 1 THEN {0, 1, 3} ELSE {0, 1, 2, 5}
\* FillMin: three months, nine foods; to keep the grid small only four foods vary (one early, the crops pair, one late)
FillCases == {[k |-> "FillMin", T |-> t, pf1 |-> p, kd |-> 100,
               fish |-> <<a, 0, a>>, meat |-> <<b, b, 0>>, dairy |-> <<0, 1, 0>>, greenhouse |-> <<0, 0, 0>>,
               outdoor_immediate |-> <<d, 1, 0>>, outdoor_new_stored |-> <<0, d, 1>>, stored_food |-> <<e, e, e>>,
               methane_scp |-> <<0, 0, 1>>, cellulosic_sugar |-> <<0, 0, 0>>, seaweed |-> <<1, 0, 0>>] :
               t \in {0, 2, 4, 100}, p \in {1, 3, 5}, a \in V, b \in V, d \in V, e \in V}
Meats == IF Depth = 1 THEN {0, 1, 3} ELSE {0, 1, 2, 4}
RetimeCases == {[k |-> "Retime", m1 |-> <<a1, a2, a3>>, m2 |-> <<b1, b2, b3>>] :
                 a1 \in Meats, a2 \in Meats, a3 \in Meats, b1 \in Meats, b2 \in Meats, b3 \in Meats}
BV == {0, 2}
\* (what is charged never exceeds its own demand when the helper is called by the model - `dom`; the other inputs are outside
\*  that invariant and only the "never lowers" clause is claimed for them)
BumpCases == {[k |-> "Bump", b |-> <<b1, 1>>, f |-> <<f1, 0>>, inc |-> <<i1, 3>>, maxB |-> <<mb, 2>>, maxF |-> <<mf, 1>>,
               avail |-> <<av, 4>>, dom |-> (b1 <= mb /\ f1 <= mf)] :
               b1 \in BV, f1 \in BV, i1 \in {0, 1, 2, 5}, mb \in {0, 2, 3}, mf \in {0, 2, 3}, av \in {0, 3, 5, 9}}

Init == c \in FillCases \cup RetimeCases \cup BumpCases
Next == PrintT(ToJson(c)) /\ c' = [k |-> "done"]
Spec == Init /\ [][c.k # "done" /\ Next]_c
=============================================================================
