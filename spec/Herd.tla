------------------------------- MODULE Herd -------------------------------
(***************************************************************************)
(* Monthly herd simulation (src/food_system/animal_populations.py main()). *)
(*                                                                         *)
(* One action per step of the monthly loop, in the order the code takes    *)
(* them:                                                                   *)
(*   BeginMonth  - the month's grass and feed become available             *)
(*   Feed(s)     - species s is offered grass (ruminants) then feed        *)
(*   EndFeeding  - grass / feed used this month are reported               *)
(*   Births(s)   - births; dairy herds also retire animals and export      *)
(*                 surviving male calves (first loop over species)         *)
(*   Slaughter(s)- natural deaths, transfers in, slaughter within the      *)
(*                 labour hours of the size class (second loop)            *)
(*   Close(s)    - starvation deaths, home-kill, end-of-month head count    *)
(*   EndMonth    - next month starts from the end-of-month head counts     *)
(*                                                                         *)
(* The module is written over the arithmetic vocabulary of Arith.tla so    *)
(* that the same actions are                                               *)
(*   - explored exhaustively on small exact rationals (MC_Herd), and       *)
(*   - used to validate traces recorded from the real code in limb         *)
(*     fixed-point arithmetic with tolerances (Trace_Herd).                *)
(* Actions take the event record `e` (the quantities the implementation    *)
(* produced or, in MC_Herd, any candidate values) and are enabled exactly  *)
(* when those quantities are consistent with properties C06 / C07.         *)
(* Every conjunct is wrapped in Ck(name, cond): the instantiating module   *)
(* decides whether a false conjunct disables the action (MC) or is noted   *)
(* as a named failing clause while the trace continues (Trace).            *)
(***************************************************************************)
EXTENDS Arith

EffG == Dec(6000, 1)     \* digestion efficiency of grass: gross -> net energy
EffF == Dec(8000, 1)     \* digestion efficiency of feed
\* one livestock unit needs KNum / KDen = 0.029 / 50.244 billion kcal of net energy a month
\* (29000 MJ a year / 12 months / 4.187 MJ per Mcal); KNumKcal is KNum expressed in kcal
\* (the exhaustive configuration works in abstract units where one livestock unit needs one unit of energy)
KNum == IF Exact THEN I(1) ELSE Dec(290, 1)
KDen == IF Exact THEN I(1) ELSE Add(I(50), Dec(2440, 1))
KNumKcal == IF Exact THEN I(1) ELSE I(29000000)

VARIABLES
  attr,        \* species -> [milk, group, size, ruminant, hours, target, baseSl, lsu, factor, kcalHead]
  month,       \* current month (0-based)
  phase,       \* "begin" | "feeding" | "births" | "slaughter" | "close"
  pop,         \* species -> head count at the start of the month
  grassAvail, feedAvail, grassLeft, feedLeft,
  fedSeq,      \* species fed so far this month, in order
  fed,         \* species -> animals counted as fed this month
  born,        \* species -> [births, tb, ret] of this month (set by Births)
  bornS, slS,  \* species whose Births / Slaughter step has been taken this month
  hoursLeft,   \* size class -> labour hours still unused this month
  afterSl,     \* species -> head count after births, transfers, retirements, natural deaths, slaughter
  closed,      \* species closed this month
  nextPop      \* species -> end-of-month head count (set by Close)

vars == <<attr, month, phase, pop, grassAvail, feedAvail, grassLeft, feedLeft, fedSeq, fed, born, bornS, slS,
          hoursLeft, afterSl, closed, nextPop>>

Species == DOMAIN attr
Sizes == {"small", "medium", "large"}
InSeq(s, q) == \E i \in 1..Len(q) : q[i] = s

\* labour capacity of a size class: sum of baseline slaughter x hours per head
Capacity(sz) == SumOver({s \in Species : attr[s].size = sz},
                        [s \in Species |-> Mul(attr[s].baseSl, attr[s].hours)])

\* Net energy requirement of a herd of p head: need * KDen = p * lsu * factor * KNum (exact decimals, so the
\* requirement is checked by cross-multiplication instead of with a rounded quotient).
RequirementOK(s, p, need) == Eq(Mul(need, KDen), Mul(Mul(Mul(p, attr[s].lsu), attr[s].factor), KNum))

\* Priority key of species s: (meat kcal per head + feed kcal a head eats per month) / slaughter hours per head,
\* the feed term being net energy / EffF.  Multiplied through by EffF * KDen * hours the comparison needs no
\* division:  key(a) >= key(b)  iff  PrioNum(a) * hours(b) >= PrioNum(b) * hours(a).
\* Named deviation PriorityIgnoresRegionalFactor: the feeding order is fixed before the regional
\* livestock-unit factor is applied (main() sorts first, sets the factors later), so the key uses factor 1.
PrioNum(s) == Add(Mul(Mul(attr[s].kcalHead, EffF), KDen), Mul(attr[s].lsu, KNumKcal))
PrioGe(a, b) == Le(Mul(PrioNum(b), attr[a].hours), Mul(PrioNum(a), attr[b].hours))

MilkOf(s) == {t \in Species : attr[t].milk /\ attr[t].group = attr[s].group}

-----------------------------------------------------------------------------
Init0(a, p0) ==
  /\ attr = a
  /\ month = 0
  /\ phase = "begin"
  /\ pop = p0
  /\ grassAvail = Zero /\ feedAvail = Zero /\ grassLeft = Zero /\ feedLeft = Zero
  /\ fedSeq = <<>>
  /\ fed = [s \in DOMAIN a |-> Zero]
  /\ born = [s \in DOMAIN a |-> [births |-> Zero, tb |-> Zero, ret |-> Zero]]
  /\ bornS = {} /\ slS = {}
  /\ hoursLeft = [z \in Sizes |-> Zero]
  /\ afterSl = [s \in DOMAIN a |-> Zero]
  /\ closed = {}
  /\ nextPop = p0

BeginMonth(e) ==
  /\ phase = "begin"
  /\ Ck("SupplyNonNeg", NonNeg(e.grass) /\ NonNeg(e.feed))
  \* every herd the country's stock table lists with animals in it is simulated (missing: how many of them are not)
  /\ Ck("EverySpeciesSimulated", e.missing = 0)
  /\ phase' = "feeding"
  /\ grassAvail' = e.grass /\ feedAvail' = e.feed
  /\ grassLeft' = e.grass /\ feedLeft' = e.feed
  /\ fedSeq' = <<>>
  /\ closed' = {} /\ bornS' = {} /\ slS' = {}
  /\ hoursLeft' = [z \in Sizes |-> Capacity(z)]
  /\ UNCHANGED <<attr, month, pop, fed, born, afterSl, nextPop>>

(* C07.  e = [pop, need, grassIn, feedIn, grassOut, feedOut, fed] *)
FeedOK(s, e) ==
  LET gu == Sub(e.grassIn, e.grassOut)
      fu == Sub(e.feedIn, e.feedOut)
      delivered == Add(Mul(EffG, gu), Mul(EffF, fu))
      roundRel == /\ Le(Mul(e.fed, e.need), Add(Mul(e.pop, delivered), Mul(Half, e.need)))
                  /\ Le(Mul(e.pop, delivered), Add(Mul(e.fed, e.need), Mul(Half, e.need)))
  IN
  /\ Ck("FeedsCurrentHerd", Eq(e.pop, pop[s]))
  /\ Ck("Requirement", RequirementOK(s, pop[s], e.need))
  /\ Ck("ThreadsSupply", Eq(e.grassIn, grassLeft) /\ Eq(e.feedIn, feedLeft))
  /\ Ck("WithinSupply", NonNeg(gu) /\ NonNeg(fu) /\ NonNeg(e.grassOut) /\ NonNeg(e.feedOut))
  /\ Ck("NoOverfeeding", Le(delivered, e.need))
  /\ Ck("GrassOnlyRuminants", attr[s].ruminant \/ Eq(gu, Zero))
  /\ Ck("GrassFirst", (attr[s].ruminant /\ SLt(Zero, fu)) => Eq(e.grassOut, Zero))
  /\ Ck("Greedy", SLt(delivered, e.need) =>
                    /\ Eq(e.feedOut, Zero)
                    /\ (attr[s].ruminant => Eq(e.grassOut, Zero)))
  /\ Ck("FedWithinHerd", NonNeg(e.fed) /\ Le(e.fed, e.pop))
  /\ Ck("FedCount", IF SLt(delivered, e.need) THEN roundRel
                    ELSE (Eq(e.fed, e.pop) \/ roundRel))
  \* (>= is transitive, so comparing with the species served just before is enough)
  /\ Ck("PriorityOrder", fedSeq = <<>> \/ PrioGe(fedSeq[Len(fedSeq)], s))

Feed(s, e) ==
  /\ phase = "feeding"
  /\ ~InSeq(s, fedSeq)
  /\ FeedOK(s, e)
  /\ grassLeft' = e.grassOut /\ feedLeft' = e.feedOut
  /\ fedSeq' = Append(fedSeq, s)
  /\ fed' = [fed EXCEPT ![s] = e.fed]
  /\ UNCHANGED <<attr, month, phase, pop, grassAvail, feedAvail, born, bornS, slS, hoursLeft, afterSl, closed, nextPop>>

(* e = [grassUsed, feedUsed] as reported by the simulation for the month *)
EndFeeding(e) ==
  /\ phase = "feeding"
  /\ Ck("EverySpeciesServed", \A s \in Species : InSeq(s, fedSeq))
  /\ Ck("UsedIsSuppliedMinusLeft", /\ Eq(Add(e.grassUsed, grassLeft), grassAvail)
                                   /\ Eq(Add(e.feedUsed, feedLeft), feedAvail))
  /\ Ck("UsedWithinSupplied", /\ NonNeg(e.grassUsed) /\ Le(e.grassUsed, grassAvail)
                              /\ NonNeg(e.feedUsed) /\ Le(e.feedUsed, feedAvail))
  /\ phase' = "births"
  /\ born' = [s \in Species |-> [births |-> Zero, tb |-> Zero, ret |-> Zero]]
  /\ UNCHANGED <<attr, month, pop, grassAvail, feedAvail, grassLeft, feedLeft, fedSeq, fed, bornS, slS, hoursLeft,
                 afterSl, closed, nextPop>>

(* C06.  e = [births, tb, ret]: births into this herd, surviving male calves exported, animals retired *)
Births(s, e) ==
  /\ phase \in {"births"}
  /\ Ck("OncePerMonth", s \notin bornS)
  /\ bornS' = bornS \cup {s}
  /\ Ck("FlowsNonNeg", NonNeg(e.births) /\ NonNeg(e.tb) /\ NonNeg(e.ret))
  /\ Ck("OnlyDairyExports", attr[s].milk \/ (Eq(e.tb, Zero) /\ Eq(e.ret, Zero)))
  /\ born' = [born EXCEPT ![s] = [births |-> e.births, tb |-> e.tb, ret |-> e.ret]]
  /\ UNCHANGED <<attr, month, phase, pop, grassAvail, feedAvail, grassLeft, feedLeft, fedSeq, fed, slS, hoursLeft,
                 afterSl, closed, nextPop>>

(* e = [transferIn, od, sl]: animals received from the dairy herd, natural deaths, slaughter *)
TransferDue(s) == IF attr[s].milk THEN Zero
                  ELSE SumOver(MilkOf(s), [t \in Species |-> Add(born[t].ret, born[t].tb)])
PreSlaughter(s, e) ==
  Sub(Add(Add(pop[s], born[s].births), e.transferIn), Add(born[s].ret, e.od))

Slaughter(s, e) ==
  LET pre == PreSlaughter(s, e) IN
  /\ phase \in {"births", "slaughter"}
  /\ phase' = "slaughter"
  /\ Ck("AllBirthsFirst", bornS = Species)
  /\ Ck("OncePerMonth", s \notin slS)
  /\ slS' = slS \cup {s}
  /\ Ck("FlowsNonNeg", NonNeg(e.od) /\ NonNeg(e.sl) /\ NonNeg(e.transferIn))
  /\ Ck("TransferConserved", Eq(e.transferIn, TransferDue(s)))
  /\ Ck("HoursWithinBudget", Le(Mul(e.sl, attr[s].hours), hoursLeft[attr[s].size]))
  /\ Ck("SlaughterWithinPop", Le(e.sl, MaxZ(pre)))
  /\ Ck("NotBelowTarget", Eq(e.sl, Zero) \/ Le(attr[s].target, Sub(pre, e.sl)))
  /\ hoursLeft' = [hoursLeft EXCEPT ![attr[s].size] = Sub(@, Mul(e.sl, attr[s].hours))]
  /\ afterSl' = [afterSl EXCEPT ![s] = Sub(pre, e.sl)]
  /\ UNCHANGED <<attr, month, pop, grassAvail, feedAvail, grassLeft, feedLeft, fedSeq, fed, born, bornS, closed, nextPop>>

(* e = [starvingPre, starve, hkH, hkS, end]: starving before slaughter, starvation deaths, home-kill of healthy /
   starving animals, end-of-month head count *)
Close(s, e) ==
  /\ phase \in {"slaughter", "close"}
  /\ phase' = "close"
  /\ Ck("AllSlaughterFirst", slS = Species)
  /\ Ck("OncePerMonth", s \notin closed)
  /\ Ck("FlowsNonNeg", NonNeg(e.starve) /\ NonNeg(e.hkH) /\ NonNeg(e.hkS) /\ NonNeg(e.end))
  /\ Ck("StarvingIsRemainder", Eq(Add(e.starvingPre, fed[s]), pop[s]))
  /\ Ck("StarvingNonNeg", NonNeg(e.starvingPre))
  /\ Ck("Ledger", Eq(e.end, MaxZ(Sub(afterSl[s], Add(e.starve, Add(e.hkH, e.hkS))))))
  /\ closed' = closed \cup {s}
  /\ nextPop' = [nextPop EXCEPT ![s] = e.end]
  /\ UNCHANGED <<attr, month, pop, grassAvail, feedAvail, grassLeft, feedLeft, fedSeq, fed, born, bornS, slS, hoursLeft, afterSl>>

EndMonth ==
  /\ phase = "close"
  /\ Ck("EverySpeciesClosed", closed = Species)
  /\ phase' = "begin"
  /\ month' = month + 1
  /\ pop' = nextPop
  /\ fedSeq' = <<>>
  /\ UNCHANGED <<attr, grassAvail, feedAvail, grassLeft, feedLeft, fed, born, bornS, slS, hoursLeft, afterSl,
                 closed, nextPop>>

-----------------------------------------------------------------------------
\* State invariants (C06 / C07), checked in every reachable state of MC_Herd and every state of every trace
InvHeadCountsNonNeg == \A s \in Species : NonNeg(pop[s]) /\ NonNeg(nextPop[s])
InvSupplyNonNeg == NonNeg(grassLeft) /\ NonNeg(feedLeft) /\ Le(grassLeft, grassAvail) /\ Le(feedLeft, feedAvail)
InvHoursNonNeg == \A z \in Sizes : NonNeg(hoursLeft[z])
InvFedWithinHerd == \A s \in Species : InSeq(s, fedSeq) => (NonNeg(fed[s]) /\ Le(fed[s], pop[s]))
=============================================================================
