----------------------------- MODULE MC_Pipeline -----------------------------
EXTENDS Pipeline
Core == {"create_head_count_csv", "create_milk_per_animal_csv", "create_meat_per_animal_csv", "create_crop_macros_csv",
         "create_nuclear_winter_csv", "create_population_csv", "create_seasonality_csv", "import_food_data"}
\* averaging-helper inputs: all vectors of length <= 3 over the boundary values, with a few weightings (as <<n, d>> rationals), some of them
\* very uneven so that the valid values may carry only a sliver of the weight
PV == {-101, -100, 0, 50, 100000, 100001}
AvgCases == {[p |-> <<a>>, w |-> <<<<1, 1>>>>] : a \in PV} \cup
            {[p |-> <<a, b>>, w |-> w] : a \in PV, b \in PV, w \in {<<<<1, 2>>, <<1, 2>>>>, <<<<1, 4>>, <<3, 4>>>>, <<<<999, 1000>>, <<1, 1000>>>>, <<<<1, 2000>>, <<1999, 2000>>>>}} \cup
            {[p |-> <<a, b, c>>, w |-> w] : a \in PV, b \in PV, c \in PV, w \in {<<<<1, 4>>, <<1, 4>>, <<1, 2>>>>, <<<<1, 5>>, <<2, 5>>, <<2, 5>>>>,
                                                                               <<<<1, 1000>>, <<499, 1000>>, <<1, 2>>>>}}
CONSTANT EmitAvg
ASSUME EmitAvg => \A x \in AvgCases : PrintT(ToJson([k |-> "Avg", p |-> x.p, w |-> x.w]))
=============================================================================
