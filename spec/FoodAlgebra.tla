---------------------------- MODULE FoodAlgebra ----------------------------
(***************************************************************************)
(* Food quantities (src/food_system/food.py): three numbers (kcals, fat,   *)
(* protein), three unit labels, the duplicated list of the three labels,   *)
(* and a shape (one value, or one value per month).                        *)
(*                                                                         *)
(* A label is a base name plus a suffix:                                   *)
(*    ""             a total over all time                                 *)
(*    " per month"   one value that applies to every month                 *)
(*    " each month"  a series with one value per month                     *)
(* A value is WellFormed when the three labels carry the same suffix, the  *)
(* suffix is " each month" exactly when the shape is a series, and the     *)
(* label list is the three labels.  Every operation below states which     *)
(* labels, shape and numbers its result has, or that it must be refused    *)
(* (Reject) because the operands' units differ or neither factor of a      *)
(* product is a dimensionless ratio.                                       *)
(*                                                                         *)
(* The machine has two registers; an operation reads them and writes its   *)
(* result into register a (so results become operands of later             *)
(* operations).  Every transition is emitted as JSON and replayed on real  *)
(* Food objects: result labels, label list, shape, numbers, operands       *)
(* unchanged, refusal <=> AssertionError.                                  *)
(***************************************************************************)
EXTENDS Integers, Sequences, FiniteSets, TLC, Json, Rat

CONSTANTS MaxDepth, Emit

VARIABLES a, b, depth
vars == <<a, b, depth>>

\* ------------------------------------------------------------------ values
Bases == {<<"billion kcals", "thousand tons", "thousand tons">>,
          <<"ratio", "ratio", "ratio">>,
          <<"billion kcals", "ratio", "ratio">>,       \* dimensionless in two nutrients only: not a ratio
          <<"percent people fed", "percent people fed", "percent people fed">>}
Default == <<"billion kcals", "thousand tons", "thousand tons">>
RatioB == <<"ratio", "ratio", "ratio">>
IsRatio(v) == v.lab = RatioB        \* the code's test: the word "ratio" occurs in all three labels

I2(k) == RInt(k)
NM == 2   \* months in a series
ScalarNums == {<<I2(2), I2(4), I2(6)>>, <<I2(-1), I2(0), I2(3)>>, <<I2(5), I2(1), I2(1)>>, <<I2(0), I2(0), I2(0)>>}
SeriesNums == {<<<<I2(1), I2(2)>>, <<I2(3), I2(4)>>, <<I2(5), I2(6)>>>>,
               <<<<I2(-2), I2(0)>>, <<I2(1), I2(-1)>>, <<I2(4), I2(4)>>>>}

Val(sh, lab, suf, n) == [sh |-> sh, lab |-> lab, suf |-> suf, n |-> n]
Scalars == {Val("S", l, s, n) : l \in Bases, s \in {"", " per month"}, n \in ScalarNums}
Series == {Val("L", l, " each month", n) : l \in Bases, n \in SeriesNums}
Universe == Scalars \cup Series

WellFormed(v) == /\ v.sh \in {"S", "L"}
                 /\ (v.sh = "L") <=> (v.suf = " each month")
                 /\ v.suf \in {"", " per month", " each month"}
SameUnits(x, y) == x.lab = y.lab /\ x.suf = y.suf

\* numbers: pointwise lifting over the three nutrients (and over months for series)
Map1(v, F(_)) == IF v.sh = "S" THEN [i \in 1..3 |-> F(v.n[i])]
                 ELSE [i \in 1..3 |-> [m \in 1..NM |-> F(v.n[i][m])]]
Map2(x, y, F(_, _)) ==
  IF x.sh = "S" /\ y.sh = "S" THEN [i \in 1..3 |-> F(x.n[i], y.n[i])]
  ELSE IF x.sh = "L" /\ y.sh = "L" THEN [i \in 1..3 |-> [m \in 1..NM |-> F(x.n[i][m], y.n[i][m])]]
  ELSE IF x.sh = "S" THEN [i \in 1..3 |-> [m \in 1..NM |-> F(x.n[i], y.n[i][m])]]
  ELSE [i \in 1..3 |-> [m \in 1..NM |-> F(x.n[i][m], y.n[i])]]
NoZero(v) == IF v.sh = "S" THEN \A i \in 1..3 : v.n[i][1] # 0
             ELSE \A i \in 1..3 : \A m \in 1..NM : v.n[i][m][1] # 0

Reject == [sh |-> "Reject"]

\* ---------------------------------------------------------------- operations
OpAdd(x, y) == IF ~SameUnits(x, y) THEN Reject ELSE Val(x.sh, x.lab, x.suf, Map2(x, y, RAdd))
OpSub(x, y) == IF ~SameUnits(x, y) THEN Reject ELSE Val(x.sh, x.lab, x.suf, Map2(x, y, RSub))
OpMinElem(x, y) == IF ~SameUnits(x, y) THEN Reject ELSE Val(x.sh, x.lab, x.suf, Map2(x, y, RMin))
\* quotient of two quantities with the same units is a ratio (a series of ratios for series)
OpDivFood(x, y) == IF ~SameUnits(x, y) THEN Reject
                   ELSE Val(x.sh, RatioB, IF x.sh = "L" THEN " each month" ELSE "", Map2(x, y, RDiv))
\* product: one factor must be a ratio; the result carries the other factor's units, on whichever side the ratio
\* is; a series factor makes the result a series
OpMulFood(x, y) ==
  IF ~(IsRatio(x) \/ IsRatio(y)) THEN Reject
  ELSE LET other == IF IsRatio(x) THEN y ELSE x
           sh == IF x.sh = "L" \/ y.sh = "L" THEN "L" ELSE "S"
       IN Val(sh, other.lab, IF sh = "L" THEN " each month" ELSE other.suf, Map2(x, y, RMul))
Half3(q) == RDiv(q, I2(2))
Triple(q) == RMul(q, I2(3))
OpDivNum(x) == Val(x.sh, x.lab, x.suf, Map1(x, Half3))        \* x / 2
OpMulNum(x) == Val(x.sh, x.lab, x.suf, Map1(x, Triple))       \* x * 3 and 3 * x
OpNeg(x) == Val(x.sh, x.lab, x.suf, Map1(x, RNeg))
OpAbs(x) == Val(x.sh, x.lab, x.suf, Map1(x, RAbs))
ClipNeg(q) == RMax(q, RZero)
OpNegToZero(x) == Val(x.sh, x.lab, x.suf, Map1(x, ClipNeg))
\* series only
OpGetMonth(x, m) == Val("S", x.lab, " per month", [i \in 1..3 |-> x.n[i][m]])
OpSum(x) == Val("S", x.lab, "", [i \in 1..3 |-> RAdd(x.n[i][1], x.n[i][2])])
OpMinAll(x) == Val("S", x.lab, "", [i \in 1..3 |-> RMin(x.n[i][1], x.n[i][2])])
OpMaxAll(x) == Val("S", x.lab, "", [i \in 1..3 |-> RMax(x.n[i][1], x.n[i][2])])
OpRunning(x) == Val("L", x.lab, x.suf, [i \in 1..3 |-> <<x.n[i][1], RAdd(x.n[i][1], x.n[i][2])>>])
OpShift1(x) == Val("L", x.lab, x.suf, [i \in 1..3 |-> <<RZero, x.n[i][1]>>])
\* (a shift by the length of the series, or by more, leaves nothing: there is no wrap-around)
OpShiftAll(x) == Val("L", x.lab, x.suf, [i \in 1..3 |-> <<RZero, RZero>>])
OpSlice(x) == Val("L", x.lab, x.suf, [i \in 1..3 |-> <<x.n[i][1], x.n[i][2]>>])   \* x[0:2]
OpRound(x) == Val("L", x.lab, x.suf, x.n)                                          \* integers: unchanged
\* scalar total times an array of monthly factors -> series
OpMulArr(x) == Val("L", x.lab, " each month", [i \in 1..3 |-> <<x.n[i], RMul(x.n[i], I2(2))>>])

\* conversion (in_units) between the setting-independent mass units: the result carries the *requested* label for each
\* nutrient (the three targets may differ), the same suffix and shape, and fat / protein divided by 1000 where million tons
\* were requested
Targets == [ConvertA |-> <<"billion kcals", "million tons", "thousand tons">>,
            ConvertB |-> <<"billion kcals", "thousand tons", "million tons">>,
            ConvertC |-> <<"billion kcals", "million tons", "million tons">>]
Conversions == DOMAIN Targets
Thousandth(q) == RDiv(q, I2(1000))
OpConvert(op, x) ==
  LET tg == Targets[op]
      conv(i, q) == IF tg[i] = "million tons" THEN Thousandth(q) ELSE q
  IN Val(x.sh, tg, x.suf, IF x.sh = "S" THEN [i \in 1..3 |-> conv(i, x.n[i])]
                          ELSE [i \in 1..3 |-> [m \in 1..NM |-> conv(i, x.n[i][m])]])

Unary == {"DivNum", "MulNum", "RMulNum", "Neg", "Abs", "NegToZero"}
SeriesOps == {"GetMonth", "GetItem", "GetItemNp", "Sum", "MinAll", "MaxAll", "Running", "Shift1", "ShiftN", "ShiftMore", "Slice", "Round"}
Binary == {"Add", "Sub", "MinElem", "DivFood", "MulFood"}

Result(op, x, y) ==
  CASE op = "Add" -> OpAdd(x, y) [] op = "Sub" -> OpSub(x, y) [] op = "MinElem" -> OpMinElem(x, y)
    [] op = "DivFood" -> OpDivFood(x, y) [] op = "MulFood" -> OpMulFood(x, y)
    [] op = "DivNum" -> OpDivNum(x) [] op \in {"MulNum", "RMulNum"} -> OpMulNum(x)
    [] op = "Neg" -> OpNeg(x) [] op = "Abs" -> OpAbs(x) [] op = "NegToZero" -> OpNegToZero(x)
    \* (GetItemNp: the index is a numpy integer)
    [] op \in {"GetMonth", "GetItem", "GetItemNp"} -> OpGetMonth(x, 2) [] op = "Sum" -> OpSum(x)
    [] op = "MinAll" -> OpMinAll(x) [] op = "MaxAll" -> OpMaxAll(x) [] op = "Running" -> OpRunning(x)
    [] op = "Shift1" -> OpShift1(x) [] op \in {"ShiftN", "ShiftMore"} -> OpShiftAll(x) [] op = "Slice" -> OpSlice(x) [] op = "Round" -> OpRound(x)
    [] op = "MulArr" -> OpMulArr(x)
    [] op \in Conversions -> OpConvert(op, x)

\* which (op, x, y) are in the domain the property speaks about
Applicable(op, x, y) ==
  CASE op \in {"Add", "Sub", "MinElem"} -> x.sh = y.sh
    [] op = "DivFood" -> x.sh = y.sh /\ NoZero(y)
    \* (two ratios with different suffixes have no documented product: outside the domain)
    [] op = "MulFood" -> ~(IsRatio(x) /\ IsRatio(y) /\ x.sh = "S" /\ y.sh = "S" /\ x.suf # y.suf)
    [] op \in Unary -> TRUE
    [] op \in Conversions -> x.lab = Default
    [] op = "Round" -> x.sh = "L" /\ \A i \in 1..3 : \A m \in 1..NM : x.n[i][m][2] = 1
    [] op \in SeriesOps -> x.sh = "L"
    [] op = "MulArr" -> x.sh = "S" /\ x.suf = ""
    [] OTHER -> FALSE

\* Named limitation ScalarTimesRatioSeriesNotImplemented: the code refuses (with the message "consider implementing
\* this feature") a single non-ratio quantity times a series of ratios.  A refusal labels nothing wrongly, so for that
\* combination the implementation may either refuse or return the documented product -- but nothing else.
MayRefuse(op, x, y) ==
  op = "MulFood" /\ (\/ (x.sh = "S" /\ y.sh = "L" /\ ~IsRatio(x) /\ IsRatio(y))
                     \/ (x.sh = "L" /\ y.sh = "S" /\ ~IsRatio(y) /\ IsRatio(x)))

\* construction of a series: whichever of the three labels already carry the series suffix, the result is WellFormed -
\* all three labels end in " each month" and the label list agrees with them
ConstructCases == {[lab |-> l, given |-> g, n |-> n] : l \in Bases, g \in [1..3 -> BOOLEAN], n \in SeriesNums}
Constructed(c) == Val("L", c.lab, " each month", c.n)
ASSUME \A c \in ConstructCases : WellFormed(Constructed(c))
ASSUME Emit => \A c \in ConstructCases : PrintT(ToJson([op |-> "Construct", x |-> c, y |-> c, r |-> Constructed(c), mayRefuse |-> FALSE]))

\* a series may be one month long (a one-month horizon, a slice x[k:k+1]): its total, its smallest and its largest month are the
\* single value with the plain label, its month 0 is that value "per month", its running total is the series itself
OneMonth(l, n) == Val("L", l, " each month", [i \in 1..3 |-> <<n[i]>>])
OneMonthResult(op, l, n) == CASE op \in {"Sum1", "MinAll1", "MaxAll1"} -> Val("S", l, "", n)
                              [] op = "GetMonth0" -> Val("S", l, " per month", n)
                              [] op = "Running1" -> OneMonth(l, n)
ASSUME Emit => \A l \in Bases, n \in ScalarNums, op \in {"Sum1", "MinAll1", "MaxAll1", "GetMonth0", "Running1"} :
                 PrintT(ToJson([op |-> op, x |-> OneMonth(l, n), y |-> OneMonth(l, n), r |-> OneMonthResult(op, l, n), mayRefuse |-> FALSE]))

\* ------------------------------------------------------------------ machine
Init == a \in Universe /\ b \in Universe /\ depth = 0

Emitted(op, r) == Emit => PrintT(ToJson([op |-> op, x |-> a, y |-> b, r |-> r, mayRefuse |-> MayRefuse(op, a, b)]))

Apply(op) ==
  /\ depth < MaxDepth
  /\ Applicable(op, a, b)
  /\ LET r == Result(op, a, b) IN
       /\ Emitted(op, r)
       /\ a' \in (IF r = Reject THEN {a} ELSE IF MayRefuse(op, a, b) THEN {a, r} ELSE {r})
       /\ b' \in (IF depth + 1 < MaxDepth THEN Universe ELSE {b})
       /\ depth' = depth + 1

\* comparisons and equality do not produce a quantity; they are refused for different units.  The expected answer
\* is not stated here: the replayer requires the real predicates to agree between (x, y) and the one-month series
\* <<x>>, <<y>> under all four settings of the fat / protein inclusion flags.
Compare ==
  /\ depth < MaxDepth
  /\ a.sh = "S" /\ b.sh = "S"
  /\ Emit => PrintT(ToJson([op |-> "Compare", x |-> a, y |-> b,
                            r |-> IF SameUnits(a, b) THEN [sh |-> "Bool"] ELSE Reject]))
  /\ depth' = MaxDepth /\ UNCHANGED <<a, b>>

Next == (\E op \in Binary \cup Unary \cup SeriesOps \cup {"MulArr"} \cup Conversions : Apply(op)) \/ Compare
Spec == Init /\ [][Next]_vars

\* design sanity: every value the operations can produce is well formed
AllWellFormed == WellFormed(a) /\ WellFormed(b)
\* a product's units do not depend on the side the ratio is on
RatioSymmetric == \A x \in {a}, y \in {b} : Applicable("MulFood", x, y) =>
  LET r1 == OpMulFood(x, y) r2 == OpMulFood(y, x)
  IN (r1 = Reject <=> r2 = Reject) /\ (r1 # Reject => (r1.lab = r2.lab /\ r1.suf = r2.suf /\ r1.sh = r2.sh))
=============================================================================
