------------------------------ MODULE MC_Report ------------------------------
(***************************************************************************)
(* Exhaustive design check of Report.tla on 2 months x small integers: for *)
(* every allocation, reporting it faithfully (reported = allocation,       *)
(* kcals-equivalent = percent * KD / 100, CSV = result, headline = minimum *)
(* of the monthly sums = optimum) satisfies every clause, so the clauses   *)
(* are jointly satisfiable and total (no allocation is un-reportable).     *)
(***************************************************************************)
EXTENDS Report
V == {I(0), I(1), I(3)}
KD == I(100)
Faithful(a, m) ==
  LET keq == [stored_food |-> a.stored_food, seaweed |-> a.seaweed, cell_sugar |-> Zero, scp |-> Zero, greenhouse |-> Zero,
              fish |-> a.fish, meat |-> a.meat, milk |-> Zero, immediate_outdoor_crops |-> a.outdoor_crops,
              new_stored_outdoor_crops |-> Zero]
  IN [ev |-> "Month", m |-> m, alloc |-> a, reported |-> a, keq |-> keq, csv |-> keq,
      fed |-> SumF(a, 9), hasUse |-> TRUE,
      \* (a faithful report of the other two uses: one food goes to feed, nothing to biofuel)
      useAlloc |-> [f \in {"stored_food", "outdoor_crops", "seaweed", "cell_sugar", "scp"} |-> [feed |-> IF f = "outdoor_crops" THEN a.fish ELSE Zero, bio |-> Zero]],
      useKeq |-> [f \in {"stored_food", "outdoor_crops", "seaweed", "cell_sugar", "scp"} |-> [feed |-> IF f = "outdoor_crops" THEN a.fish ELSE Zero, bio |-> Zero]]]
Alloc(s, o, w, f, me) == [stored_food |-> s, outdoor_crops |-> o, seaweed |-> w, cell_sugar |-> Zero, scp |-> Zero,
                          greenhouse |-> Zero, fish |-> f, meat |-> me, milk |-> Zero]
Sums == {SumF(Alloc(s, o, w, f, me), 9) : s \in V, o \in V, w \in V, f \in V, me \in {I(0), I(1)}}
MCBegin == \E pf \in Sums : rb.kind = "none" /\ BeginR([kind |-> "humans", z |-> pf, pf |-> pf, kd |-> KD, unchanged |-> TRUE, swKcal |-> I(1), n |-> 2])
MCMonth == \E s \in V, o \in V, w \in V, f \in V, me \in {I(0), I(1)} :
             rb.kind # "none" /\ rmon < 2 /\ MonthR(Faithful(Alloc(s, o, w, f, me), rmon))
MCEnd == rb.kind # "none" /\ ~ended /\ EndR
Spec == PInit /\ [][MCBegin \/ MCMonth \/ MCEnd]_pvars
\* whenever both months are reported, the run can end exactly when the headline was the minimum of the monthly sums
EndIffMin == (rb.kind # "none" /\ rmon = 2 /\ ~ended) => (ENABLED MCEnd <=> QEq(rb.pf, minFed))
=============================================================================
