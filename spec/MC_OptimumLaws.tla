--------------------------- MODULE MC_OptimumLaws ---------------------------
(***************************************************************************)
(* Laws of the allocation problem itself (C12), decided on Optimum.tla by  *)
(* exhaustive search: the optimum of a people-maximising round - the       *)
(* largest target for which the end of the horizon is reachable - does not *)
(* fall when a supply grows or waste shrinks, does not rise when the feed  *)
(* charge grows, and doubles when every quantity doubles.  These are the   *)
(* facts that make "more supply never feeds fewer people" a consequence of *)
(* a correct formulation; C02 binds the code's optimum to this one, and    *)
(* Mono.tla checks the same laws on the code directly.                     *)
(*                                                                         *)
(* The instance file lists every member of the family once per probed      *)
(* target (mode "probe"); the pair file lists the related members          *)
(* [lo, hi, kind] by instance id.  Run with -workers 1.                    *)
(***************************************************************************)
EXTENDS Optimum
Pairs == JsonDeserialize(IOEnv.PAIR_FILE)
ASSUME TLCSet(1, {})
Mark == (mon = I.n) => TLCSet(1, TLCGet(1) \cup {iid})
Reached == TLCGet(1)
Max(S) == IF S = {} THEN 0 ELSE CHOOSE x \in S : \A y \in S : y <= x
Probes(k) == {j \in 1..Len(Insts) : Insts[j].id = k}
OptOf(k) == Max({Insts[j].target : j \in Probes(k) \cap Reached})
\* the probed range was wide enough: the largest probed target of every member is out of reach
ProbeComplete == \A j \in 1..Len(Insts) : (Insts[j].target = Max({Insts[q].target : q \in Probes(Insts[j].id)})) => j \notin Reached
PairOK(p) == CASE p.kind = "ge" -> OptOf(p.hi) >= OptOf(p.lo)
               [] p.kind = "le" -> OptOf(p.hi) <= OptOf(p.lo)
               [] p.kind = "x2" -> 2 * OptOf(p.lo) <= OptOf(p.hi) /\ OptOf(p.hi) <= 2 * OptOf(p.lo) + 1
Bad == {i \in 1..Len(Pairs) : ~PairOK(Pairs[i])}
Laws == PrintT(ToJson([k |-> "Laws", complete |-> ProbeComplete, bad |-> [i \in Bad |-> Pairs[i]], npairs |-> Len(Pairs),
                          opt |-> [i \in 1..Len(Pairs) |-> <<OptOf(Pairs[i].lo), OptOf(Pairs[i].hi)>>]]))
\* (the verdict is reported, not asserted: the driver turns `bad` into violations and an incomplete probe into a machinery failure)
=============================================================================
