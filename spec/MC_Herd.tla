------------------------------ MODULE MC_Herd ------------------------------
(***************************************************************************)
(* Exhaustive configuration of Herd.tla on exact small rationals.          *)
(* Three species: a dairy herd and the meat herd of the same animal (both  *)
(* large ruminants, sharing the "large" labour budget) and pigs (medium,   *)
(* not ruminant).  Feeding is computed by FeedFun - the documented rule    *)
(* "grass first (ruminants only), then feed, efficiencies 0.6 / 0.8" as a  *)
(* function - and must satisfy the relational action Herd!Feed; all other  *)
(* flows range over small grids and are filtered by the guards of the      *)
(* actions.  Every Feed transition is emitted as a JSON line (EmitFeed)    *)
(* and replayed through the real AnimalSpecies.feed_the_species.           *)
(***************************************************************************)
EXTENDS Herd

CONSTANTS MaxMonth, EmitFeed

Sp == {"milk_x", "meat_x", "pig"}
UnitLsu == I(1)
Attr0 ==
  [s \in Sp |->
     [milk |-> (s = "milk_x"),
      group |-> IF s = "pig" THEN "pig" ELSE "x",
      size |-> IF s = "pig" THEN "medium" ELSE "large",
      ruminant |-> (s # "pig"),
      hours |-> IF s = "pig" THEN I(1) ELSE I(2),
      target |-> I(1),
      baseSl |-> IF s = "milk_x" THEN I(0) ELSE I(1),
      lsu |-> IF s = "meat_x" THEN RMul(UnitLsu, I(2)) ELSE UnitLsu,
      factor |-> I(1),
      \* priority (kcalHead*EffF*KDen + lsu*KNumKcal)/hours: milk_x > meat_x > pig with these numbers
      kcalHead |-> IF s = "milk_x" THEN I(90) ELSE IF s = "meat_x" THEN I(10) ELSE I(1)]]

PopGrid == IF EmitFeed THEN {I(0), I(2), I(3), R(7, 2), I(40)} ELSE {I(0), I(2), I(3)}
\* just short of / just beyond what the first species in the priority order needs when its herd is 40 (99.8 % and 100.1 % of
\* the requirement, as grass): the sufficiency test is exact, there is no "nearly enough"
NeedOf(s, p) == Mul(p, RDiv(Mul(Mul(Attr0[s].lsu, Attr0[s].factor), KNum), KDen))
JustShort == RDiv(Mul(NeedOf("milk_x", I(40)), R(998, 1000)), EffG)
JustOver == RDiv(Mul(NeedOf("milk_x", I(40)), R(1001, 1000)), EffG)
SupplyGrid == IF EmitFeed THEN {I(0), I(1), I(2), I(5), I(10), R(7, 3), I(60), I(200), JustShort, JustOver}
              ELSE {I(0), I(1), I(2), I(5), I(10)}   \* gross energy on offer
FlowGrid == {I(0), I(1), I(3)}

\* the documented feeding rule as a function of (herd, requirement, grass on offer, feed on offer)
FeedFun(s, p, need, g, f) ==
  LET rum == attr[s].ruminant
      neG == IF rum THEN Mul(EffG, g) ELSE Zero
      neF == Mul(EffF, f)
  IN IF REq(need, Zero) THEN [grassOut |-> g, feedOut |-> f, fed |-> {p}]
     ELSE IF RLe(need, neG) THEN [grassOut |-> Sub(g, RDiv(need, EffG)), feedOut |-> f, fed |-> {p}]
     ELSE LET gOut == IF rum THEN Zero ELSE g
              rem == Sub(need, neG)
          IN IF RLe(rem, neF) THEN [grassOut |-> gOut, feedOut |-> Sub(f, RDiv(rem, EffF)), fed |-> {p}]
             ELSE [grassOut |-> gOut, feedOut |-> Zero,
                   fed |-> {I(k) : k \in RNearest(RDiv(Mul(p, Add(neG, neF)), need))}]

PrioOrder == <<"milk_x", "meat_x", "pig">>
NextToFeed == PrioOrder[Len(fedSeq) + 1]

Init == \E p \in [Sp -> PopGrid] : Init0(Attr0, p)

MCBegin == \E g \in SupplyGrid, f \in SupplyGrid : BeginMonth([grass |-> g, feed |-> f, missing |-> 0])

MCFeed ==
  /\ phase = "feeding" /\ Len(fedSeq) < 3
  /\ LET s == NextToFeed
         need == Mul(pop[s], RDiv(Mul(Mul(attr[s].lsu, attr[s].factor), KNum), KDen))
         r == FeedFun(s, pop[s], need, grassLeft, feedLeft)
     IN \E k \in r.fed :
          LET e == [pop |-> pop[s], need |-> need, grassIn |-> grassLeft, feedIn |-> feedLeft,
                    grassOut |-> r.grassOut, feedOut |-> r.feedOut, fed |-> k]
          IN /\ Feed(s, e)
             /\ EmitFeed => PrintT(ToJson([k |-> "FEEDCASE", s |-> s, rum |-> attr[s].ruminant, e |-> e]))

MCEndFeeding ==
  /\ Len(fedSeq) = 3
  /\ EndFeeding([grassUsed |-> Sub(grassAvail, grassLeft), feedUsed |-> Sub(feedAvail, feedLeft)])
  /\ EmitFeed => PrintT(ToJson([k |-> "FEEDMONTH", pop |-> pop, grass |-> grassAvail, feed |-> feedAvail,
                                 grassLeft |-> grassLeft, feedLeft |-> feedLeft, fed |-> fed,
                                 lsu |-> [s \in Sp |-> attr[s].lsu], rum |-> [s \in Sp |-> attr[s].ruminant],
                                 order |-> fedSeq]))

\* the three loops of the month run over the species in the code's (priority) order
NextIn(S) == PrioOrder[Cardinality(S) + 1]

MCBirths ==
  /\ Cardinality(bornS) < 3
  /\ LET s == NextIn(bornS) IN
     \E b \in (IF s = "pig" THEN {I(0)} ELSE {I(0), I(1)}),
        tb \in (IF attr[s].milk THEN {I(0), I(1)} ELSE {I(0)}),
        ret \in (IF attr[s].milk THEN FlowGrid ELSE {I(0)}) :
          Births(s, [births |-> b, tb |-> tb, ret |-> ret])

MCSlaughter ==
  /\ bornS = Sp /\ Cardinality(slS) < 3
  /\ LET s == NextIn(slS) IN
     \E od \in (IF s = "meat_x" THEN {I(0), I(1)} ELSE {I(0)}), sl \in {I(0), I(1), I(2)} :
          Slaughter(s, [transferIn |-> TransferDue(s), od |-> od, sl |-> sl])

MCClose ==
  /\ slS = Sp /\ Cardinality(closed) < 3
  /\ LET s == NextIn(closed) IN
     \E st \in (IF s = "milk_x" THEN {I(0)} ELSE {I(0), I(2)}) :
       Close(s, [starvingPre |-> Sub(pop[s], fed[s]), starve |-> st, hkH |-> Zero, hkS |-> Zero,
                 end |-> MaxZ(Sub(afterSl[s], st))])

MCEndMonth == month < MaxMonth /\ EndMonth

Next == MCBegin \/ MCFeed \/ MCEndFeeding \/ MCBirths \/ MCSlaughter \/ MCClose \/ MCEndMonth
Spec == Init /\ [][Next]_vars

\* the functional rule always satisfies the relational action, and a month can always be completed:
\* apart from the end of the horizon, no reachable state is stuck
FeedingOnly == phase \in {"begin", "feeding"}    \* state constraint of the feed-case generation run
NoStuck == (month = MaxMonth /\ phase = "close" /\ closed = Sp) \/ ENABLED Next
=============================================================================
