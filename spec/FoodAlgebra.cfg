SPECIFICATION Spec
CONSTANTS
  MaxDepth = 2
  Emit = FALSE
CHECK_DEADLOCK FALSE
INVARIANT AllWellFormed
INVARIANT RatioSymmetric
