SPECIFICATION BSpec
CONSTANTS
  Exact = TRUE
  Universe <- AllScripts
  EmitAvg = FALSE
CHECK_DEADLOCK FALSE
INVARIANT NoStaleRead
INVARIANT Confluent
