------------------------------- MODULE Supply -------------------------------
(***************************************************************************)
(* Calendar and supply schedules (src/food_system/*.py, C08 / C09).        *)
(*                                                                         *)
(* The simulation starts in May: simulated month m (0-based) is calendar   *)
(* month (4 + m) mod 12 (0 = January).  Model year 1 is May-December       *)
(* (months 0..7); crops use years 2..9 of twelve months and year 10 for    *)
(* the rest of the horizon; grass uses twelve-month years up to the last   *)
(* simulated year, which is sixteen months long.                           *)
(*                                                                         *)
(* For every month the module gives the *recipe* of each supply series:    *)
(* which calendar month's seasonality share, which model year's disruption *)
(* ratio, whether the relocated (power-law) yield applies, and the ramp    *)
(* stage of cropland expansion, greenhouse area, single-cell protein,      *)
(* cellulosic sugar and seaweed area as exact rationals.  These indices    *)
(* and stages are where off-by-one errors live; the remaining arithmetic   *)
(* (a fixed product of looked-up inputs) is done by the replayer on        *)
(* generated inputs and compared with the real classes to 1e-9.            *)
(* TLC checks the calendar facts (OnePerMonth, blocks partition the        *)
(* horizon, ramps monotone and capped) for every horizon and delay.        *)
(***************************************************************************)
EXTENDS Integers, Sequences, FiniteSets, TLC, Json, Rat

CONSTANT Emit

Horizons == {48, 60, 72, 84, 96, 108, 120}
StartCal == 4                      \* May
Cal(m) == (StartCal + m) % 12
FirstYearLen == 8
HarvestDuration == 8               \* INITIAL_HARVEST_DURATION_IN_MONTHS
RotationDelay == 2                 \* DELAY.ROTATION_CHANGE_IN_MONTHS
RelocFrom == HarvestDuration + RotationDelay

\* model year of month m for crops (1..10) and for grass (1..N/12)
CropYear(m) == IF m < FirstYearLen THEN 1 ELSE LET y == 2 + (m - FirstYearLen) \div 12 IN IF y > 10 THEN 10 ELSE y
GrassYear(m, N) == IF m < FirstYearLen THEN 1 ELSE LET y == 2 + (m - FirstYearLen) \div 12 IN IF y > N \div 12 THEN N \div 12 ELSE y

\* cropland expansion: factor 1 + stage * (max - 1), stage rising linearly from month 8 to month 12 * years
ExpandStage(m, years) == IF m < HarvestDuration THEN RZero
                         ELSE IF m < 12 * years THEN R(m - HarvestDuration, 12 * years - HarvestDuration) ELSE ROne
\* greenhouse share of cropland: 0 for delay + 5 months, then 37 points from 0 to the configured share
GhStage(m, delay) == IF m < delay + 5 THEN RZero ELSE IF m - (delay + 5) <= 36 THEN R(m - (delay + 5), 36) ELSE ROne

\* single-cell protein: percent of global needs before the 12 % loss; named deviation ScpDelayTwicePlus12 (the
\* start-up delay is applied twice and twelve zero months follow; pinned by tests/test_methane_scp.py)
ScpSteps == [i \in 1..19 |-> IF i <= 5 THEN 2 ELSE IF i = 6 THEN 4 ELSE IF i <= 11 THEN 7 ELSE IF i = 12 THEN 9 ELSE IF i <= 18 THEN 11 ELSE 13]
ScpPercent(m, delay) == LET k == m - (2 * delay + 12) IN IF k < 0 THEN 0 ELSE IF k + 1 <= 19 THEN ScpSteps[k + 1] ELSE 15
\* cellulosic sugar: zero for delay + 5 months, 4.7 % for three months, then 9.5 % (in tenths of a percent)
CsTenths(m, delay) == LET k == m - (delay + 5) IN IF k < 0 THEN 0 ELSE IF k < 3 THEN 47 ELSE 95
\* seaweed farm area: the initial area for `delay` months, then initial + k * monthly new area, capped
SeaweedSteps(m, delay) == IF m < delay THEN 0 ELSE m - delay
\* feed / biofuel demand: the monthly amount for `duration` months, then nothing
DemandOn(m, duration) == m < duration

Recipe(N, cfg) ==
  [m \in 0..(N - 1) |->
     [cal |-> Cal(m), cropYear |-> CropYear(m), grassYear |-> GrassYear(m, N),
      relocated |-> cfg.reloc /\ m >= RelocFrom,
      expand |-> IF cfg.expand THEN ExpandStage(m, 3) ELSE RZero,
      gh |-> IF cfg.gh THEN GhStage(m, cfg.ghDelay) ELSE RZero,
      scp |-> ScpPercent(m, cfg.indDelay), cs |-> CsTenths(m, cfg.indDelay),
      seaweed |-> SeaweedSteps(m, cfg.swDelay),
      feedOn |-> DemandOn(m, cfg.feedMonths), bioOn |-> DemandOn(m, cfg.bioMonths)]]

\* the May-December factor of year 1 from the year-1 ratio r1 and the share of the harvest before May hb
Y1Factor(r1, hb) ==
  LET afterNW == RMax(RZero, RSub(r1, hb))
      after == RSub(ROne, hb)
  IN IF RLe(afterNW, RZero) THEN RZero
     ELSE IF RLt(after, R(1, 4)) THEN ROne ELSE RDiv(afterNW, after)

\* stored food at the start: last month's end-of-month stock x share used - untouched share of the annual minimum
StockIndexBefore(startMonth) == ((startMonth - 1) + 11) % 12      \* 0-based index of the month before the start month

-----------------------------------------------------------------------------
\* (Never: the `continued` schedules - demand lasts the whole horizon, whatever its length)
Never == 999
Configs(full) ==
  IF full THEN [reloc : BOOLEAN, expand : BOOLEAN, gh : BOOLEAN, ghDelay : {0, 2, 4}, indDelay : {0, 2, 5}, swDelay : {0, 1, 3},
                feedMonths : {0, 3, 12, Never}, bioMonths : {0, 2, Never}]
  ELSE {[reloc |-> r, expand |-> r /\ e, gh |-> g, ghDelay |-> IF g THEN (IF r THEN (IF e THEN 4 ELSE 2) ELSE 0) ELSE 0, indDelay |-> IF r THEN 2 ELSE 0,
         swDelay |-> IF g THEN 1 ELSE 3, feedMonths |-> IF r THEN 3 ELSE (IF g THEN Never ELSE 12), bioMonths |-> IF g THEN 2 ELSE (IF r THEN Never ELSE 0)] :
        r \in BOOLEAN, e \in BOOLEAN, g \in BOOLEAN}

\* calendar facts for every horizon
OnePerMonth == \A N \in Horizons : \A m \in 0..(N - 1) :
   /\ Cal(m) \in 0..11 /\ CropYear(m) \in 1..10 /\ GrassYear(m, N) \in 1..(N \div 12)
BlocksPartition == \A N \in Horizons :
   /\ Cardinality({m \in 0..(N - 1) : GrassYear(m, N) = 1}) = 8
   /\ \A y \in 2..(N \div 12 - 1) : Cardinality({m \in 0..(N - 1) : GrassYear(m, N) = y}) = 12
   /\ Cardinality({m \in 0..(N - 1) : GrassYear(m, N) = N \div 12}) = 16
   /\ \A y \in 2..9 : Cardinality({m \in 0..(N - 1) : CropYear(m) = y}) \in {0, 12, N - (8 + 12 * (y - 2))}
YearsNeverGoBack == \A N \in Horizons : \A m \in 0..(N - 2) : CropYear(m) <= CropYear(m + 1) /\ GrassYear(m, N) <= GrassYear(m + 1, N)
CalendarAdvances == \A m \in 0..118 : Cal(m + 1) = (Cal(m) + 1) % 12
RampsMonotoneCapped == \A d \in 0..6 : \A m \in 0..118 :
   /\ RLe(GhStage(m, d), GhStage(m + 1, d)) /\ RLe(GhStage(m, d), ROne) /\ (m < d + 5 => GhStage(m, d) = RZero)
   /\ RLe(ExpandStage(m, 3), ExpandStage(m + 1, 3)) /\ RLe(ExpandStage(m, 3), ROne)
   /\ ScpPercent(m, d) <= ScpPercent(m + 1, d) /\ ScpPercent(m, d) <= 15 /\ (m < 2 * d + 12 => ScpPercent(m, d) = 0)
   /\ CsTenths(m, d) <= CsTenths(m + 1, d) /\ CsTenths(m, d) <= 95 /\ (m < d + 5 => CsTenths(m, d) = 0)
   /\ SeaweedSteps(m, d) <= SeaweedSteps(m + 1, d)
Y1Sane == \A r1 \in {R(0, 1), R(1, 4), R(1, 2), R(3, 4), R(1, 1)}, hb \in {R(0, 1), R(1, 4), R(1, 2), R(9, 10), R(1, 1)} :
   RLe(RZero, Y1Factor(r1, hb)) /\ RLe(Y1Factor(r1, hb), ROne)

ASSUME OnePerMonth
ASSUME BlocksPartition
ASSUME YearsNeverGoBack
ASSUME CalendarAdvances
ASSUME RampsMonotoneCapped
ASSUME Y1Sane
ASSUME Emit # "none" => \A N \in (IF Emit = "full" THEN Horizons ELSE {48, 84, 120}) : \A cfg \in Configs(Emit = "full") :
          PrintT(ToJson([k |-> "Recipe", N |-> N, cfg |-> cfg, months |-> [i \in 1..N |-> Recipe(N, cfg)[i - 1]]]))
ASSUME Emit # "none" => \A r1 \in {R(0, 1), R(1, 4), R(1, 2), R(3, 4), R(1, 1)}, hb \in {R(0, 1), R(1, 4), R(1, 2), R(9, 10), R(1, 1)} :
          PrintT(ToJson([k |-> "Y1", r1 |-> r1, hb |-> hb, y1 |-> Y1Factor(r1, hb)]))
ASSUME Emit # "none" => \A s \in 1..12 : PrintT(ToJson([k |-> "Stock", start |-> s, idx |-> StockIndexBefore(s)]))
=============================================================================
