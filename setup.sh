#!/bin/sh
# Offline setup: nothing to build. Parse every TLA+ module with SANY and byte-compile the harness so that a broken
# tool chain is reported here rather than by the first check.
cd "$(dirname "$0")" || exit 2
rc=0
for m in spec/*.tla; do
  b=$(basename "$m" .tla)
  if ! (cd spec && java -cp /opt/veriftools/tla/tla2tools.jar:/opt/veriftools/tla/CommunityModules-deps.jar tla2sany.SANY "$b" >/tmp/verif_sany_$$.log 2>&1) || grep -q "Semantic errors\|Parse Error\|Fatal errors\|Could not find" /tmp/verif_sany_$$.log; then
    echo "SANY failed on $b"; tail -20 /tmp/verif_sany_$$.log; rc=1
  fi
done
rm -f /tmp/verif_sany_$$.log
/venv/bin/python -m compileall -q harness >/dev/null || rc=1
mkdir -p evidence
exit $rc
